"""C13 — k-shortest-paths returns up to k valid, distinct routes, best first, and ends."""
from core import *
import astar

EXPLANATION = (
    "C13: the 'accept all' similarity never rejects (is_similar is the constant false; threshold variants are similarity >= threshold); "
    "cosine similarity = a.b / (|a| |b|) with each norm taken over its own route; single-via pipeline: the first route is the forward "
    "tree's backtracked route, a candidate is pushed only if it is loop-free, not an exact duplicate and dissimilar to every accepted "
    "route, via vertices are queued only when they can be backtracked in both trees, the loop pops once per turn and ends on the criteria "
    "or an empty queue, the result is take(k); Yen's structure (first route, spur instance = caller's instance with the cut frontier, cut "
    "edge = edge after the root, loop-freedom, dissimilar to every accepted route, one acceptance per outer turn, spur-search failures not "
    "propagated, progress); criteria table and k override. Not decided: route validity on every graph, similarity values."
)

K = astar.A + "ksp::"
SIM = astar.A + "util::route_similarity_function::"
RSF = SIM + "RouteSimilarityFunction"
BT = astar.A + "backtrack::vertex_oriented_route"
OPS = astar.A + "a_star::bidirectional_ops::"


def R1_similarity(ctx):
    """C13.R1 'accept all' rejects nothing; thresholds; cosine"""
    F = ctx.F
    ctx.rule("C13.R1", "is_similar: AcceptAll => false (never 'too similar'), threshold variants => similarity >= threshold; test_similarity = is_similar(rank_similarity(a,b)); rank(AcceptAll) constant; Default = AcceptAll; cosine = a.b/(|a||b|) with |a| over a's own map and |b| over b's", floor=9)
    b = F.need(RSF + "::is_similar")
    got = {}
    for r in table(b):
        if r.end == "return":
            got[r.sel.get(("arg", 1))] = r.ret
    ctx.check(got.get("AcceptAll") == ("const", "bool", False), "is_similar:AcceptAll", "AcceptAll.is_similar(_) is %s; both k-shortest-path algorithms reject a candidate when is_similar is true, so 'accept all' must be the constant false" % (short(got.get("AcceptAll")) if got.get("AcceptAll") else None), b.where(), detail="false")
    # (an or-pattern merges variants into one arm: the label is then the group)
    for k_ in list(got):
        if isinstance(k_, tuple) and k_ and k_[0] == "otherwise":
            for v_ in k_[1]:
                got.setdefault(v_, rewrite(got[k_], lambda y: None))
    for v in ("EdgeIdCosineSimilarity", "DistanceWeightedCosineSimilarity"):
        c = as_cmp(got[v]) if v in got else None
        ok = bool(c) and canon_cmp(c) == ("Le", ("field", ("variant", ("arg", 1), v), "threshold"), ("arg", 2))
        ctx.check(ok, "is_similar:%s" % v, "%s is not `similarity >= threshold`: %s" % (v, short(got.get(v)) if v in got else None), b.where(), detail="similarity >= threshold")
    variants = {v["name"] for v in F.adts[RSF]["variants"]}
    ctx.check(variants == set(got), "is_similar:variants", "variants %s vs decided %s" % (sorted(variants), sorted(map(str, got))), b.where())
    tb = F.need(RSF + "::test_similarity")
    oks = [r for r in table(tb) if r.end == "return" and ok_value(r) is not None]
    want = ("call", RSF + "::is_similar", (("arg", 1), ("call", RSF + "::rank_similarity", (("arg", 1), ("arg", 2), ("arg", 3), ("arg", 4)))))
    ctx.check(len(oks) == 1 and unmut(ok_value(oks[0])) == want, "test_similarity", "test_similarity is not is_similar(rank_similarity(a, b, si))", tb.where(), detail="is_similar(rank(a,b))")
    rb = F.need(RSF + "::rank_similarity")
    rows = [r for r in table(rb) if r.end == "return" and r.sel.get(("arg", 1)) == "AcceptAll"]
    ctx.check(len(rows) == 1 and result_variant(rows[0].ret) == "Ok" and agg_payload(rows[0].ret)[0] == "const", "rank:AcceptAll", "rank_similarity(AcceptAll) is not a constant", rb.where())
    for v in ("EdgeIdCosineSimilarity", "DistanceWeightedCosineSimilarity"):
        rows = [r for r in table(rb) if r.end == "return" and r.sel.get(("arg", 1)) == v]
        ok = len(rows) == 1 and rows[0].ret[0] == "call" and rows[0].ret[1] == SIM + "cos_similarity" and rows[0].ret[2][:2] == (("arg", 2), ("arg", 3))
        ctx.check(ok, "rank:%s" % v, "%s is not cos_similarity(a, b, weight function)" % v, rb.where(), detail="cos_similarity(a, b, ..)")
    db = [p for p in F.bodies if p.startswith("<%s as std::default::Default>::default" % RSF)]
    okd = bool(db) and nosite(deep_strip(Terms(F.bodies[db[0]]).return_term())) == ("agg", RSF, "AcceptAll", ())
    ctx.check(okd, "default=AcceptAll", "the default similarity function is not AcceptAll", None)
    # cosine
    cb = F.need(SIM + "cos_similarity")
    oks = [r for r in table(cb) if r.end == "return" and result_variant(r.ret) == "Ok"]
    okc = len(oks) == 1
    if okc:
        v = agg_payload(oks[0].ret)
        okc = v[0] == "bin" and v[1] == "Div" and v[3][0] == "bin" and v[3][1] == "Mul"
        if okc:
            def norm_src(t):
                # sqrt(sum(map(values(MAP), sq)))  -> which argument MAP was built from
                if not (t[0] == "call" and t[1].endswith("::sqrt")):
                    return None
                vals = [x for x in calls_in(t) if x[1].endswith("HashMap::<K, V, S, A>::values")]
                if len(vals) != 1:
                    return None
                its = [x for x in calls_in(vals[0]) if x[1] == "std::slice::<impl [T]>::iter"]
                sq = [x for x in subterms(t) if x[0] == "closure"]
                sq_ok = False
                for k in sq:
                    kb = F.bodies.get(k[1])
                    if kb is not None:
                        rt = nosite(deep_strip(Terms(kb).return_term()))
                        A = Arith(F, {("arg", 2): "d"})
                        if A.ev(rt).equals(Ratio(Poly.sym("d")) * Ratio(Poly.sym("d"))):
                            sq_ok = True
                return its[0][2][0] if len(its) == 1 and sq_ok else None
            na, nb = norm_src(v[3][2]), norm_src(v[3][3])
            okc = {repr(na), repr(nb)} == {repr(("arg", 1)), repr(("arg", 2))}
            ctx.check(okc, "cosine:norms", "the denominator is not |a|*|b| with each norm (sqrt of the sum of squares) over its own route: norms are over %s and %s" % (short(na) if na else None, short(nb) if nb else None), cb.where(), detail="sqrt(sum a^2) * sqrt(sum b^2)")
            num = v[2]
            un = [x for x in calls_in(num) if x[1].endswith("HashSet::<T, S>::union") or x[1].endswith("::union")]
            cl = [x for x in subterms(num) if x[0] == "closure"]
            okn = len(un) >= 1
            prod = False
            for k in cl:
                kb = F.bodies.get(k[1])
                if kb is None:
                    continue
                rt = nosite(deep_strip(Terms(kb).return_term()))
                if rt[0] == "bin" and rt[1] == "Mul":
                    gets = [x for x in calls_in(rt) if x[1].endswith("HashMap::<K, V, S, A>::get")]
                    if len(gets) == 2 and gets[0][2][0] != gets[1][2][0] and gets[0][2][1] == gets[1][2][1]:
                        prod = True
            ctx.check(okn and prod, "cosine:dot-product", "the numerator is not the sum over the union of edges of a[e]*b[e]", cb.where(), detail="sum_e a[e]*b[e]")
    else:
        ctx.bad("cosine:shape", "cos_similarity has no single Ok path", cb.where())


def gate_var_analysis(b, tm, push):
    """the push is guarded by a bool local: returns (local, false_assign_blocks)"""
    for sbb, dt, names, t in switches(b, tm):
        if sbb in b.dom.get(push.bb, ()):
            d = tm.operand(t["discr"], sbb)
            op = t["discr"]
            if op["k"] in ("copy", "move") and not op["place"]["p"]:
                l = op["place"]["l"]
                # follow one copy
                ds = [x for x in b.defs.get(l, []) if not x[2]]
                if len(ds) == 1 and ds[0][1] != "term":
                    rv = b.blocks[ds[0][0]]["stmts"][ds[0][1]]["rv"]
                    if rv["k"] == "use" and rv["op"]["k"] in ("copy", "move") and not rv["op"]["place"]["p"]:
                        l = rv["op"]["place"]["l"]
                        ds = [x for x in b.defs.get(l, []) if not x[2]]
                consts = []
                for (bb, pos, _) in ds:
                    if pos == "term":
                        consts = None
                        break
                    rv = b.blocks[bb]["stmts"][pos]["rv"]
                    if rv["k"] == "use" and rv["op"]["k"] == "const" and "bool" in rv["op"]:
                        consts.append((bb, rv["op"]["bool"]))
                    else:
                        consts = None
                        break
                if consts and any(v for _, v in consts) and any(not v for _, v in consts):
                    f, tr = bool_targets(t)
                    if must_pass_edge(b, 0, (sbb, tr), push.bb):
                        return l, [bb for bb, v in consts if not v], sbb
    return None


def controlling_true(b, tm, block):
    """stripped terms of the bool switches whose *true* edge dominates `block`"""
    out = []
    for sbb, dt, names, t in switches(b, tm):
        if names is not None:
            continue
        f, tr = bool_targets(t)
        if tr is not None and tr != f and b.dominates(tr, block) and sbb in b.dom.get(block, ()):
            out.append((sbb, nosite(deep_strip(dt))))
    return out


def _scan_chain_form(F, b, tm, push, cand, sol):
    """the scan over the accepted routes spelled as a lazy chain whose verdict guards the push:
        `solution.iter().map(|r| -> Result<bool> { Ok(duplicate(cand, r) || similar(cand, r)?) })
                 .find(|t| !matches!(t, Ok(false))).unwrap_or(Ok(false))?`
    read as: the mapped closure yields `duplicate || similar` (the similarity Err leaves it as Err), the predicate stops at the
    first element that is not Ok(false), an exhausted scan gives Ok(false), and the push is reached only when the result is
    false.  Returns "n/a" when this shape is not used, None when it decides the scan, otherwise what is wrong."""
    DUP = K + "single_via_paths_algorithm::test_id_similarity"
    SIM = RSF + "::test_similarity"
    OKF = ("agg", "std::result::Result", "Ok", (("0", ("const", "bool", False)),))
    hit = None
    for sbb, t, truth in controlling(b, tm, push.bb):
        if t[0] == "call" and re.search(r"Option::<T>::unwrap_or$", t[1].split("{")[0]) and len(t[2]) == 2 and contains(t, lambda q: q[0] == "closure"):
            hit = (sbb, t, truth)
    if hit is None:
        return "n/a"
    sbb, t, truth = hit
    if truth is not False:
        return "the push is reached when the scan's verdict is true"
    fnd, dflt = t[2]
    if clean(dflt) != clean(OKF):
        return "an exhausted scan does not yield Ok(false): %s" % short(dflt)[:80]
    raw = [dt for s_, dt, names, _ in switches(b, tm) if s_ == sbb]
    if not raw or not contains(raw[0], lambda q: q[0] == "call" and q[1].endswith("::branch")):
        return "the Err of the scan is not propagated with `?`"
    if not (fnd[0] == "call" and itm(fnd[1], "find") and len(fnd[2]) == 2 and fnd[2][1][0] == "closure" and fnd[2][1][1] in F.bodies):
        return "the verdict is not taken by Iterator::find over the mapped tests"
    mp, pcl = fnd[2]
    if not (mp[0] == "call" and itm(mp[1], "map") and len(mp[2]) == 2 and mp[2][1][0] == "closure" and mp[2][1][1] in F.bodies):
        return "the tests are not produced by Iterator::map over the accepted routes"
    src, kcl = mp[2]
    if not contains(clean(src), lambda q: q == sol) or [x for x in calls_in(src) if re.search(r"Iterator>?::(take|skip|filter|step_by|rev|take_while|skip_while|filter_map)$", x[1].split("{")[0])]:
        return "the scan does not visit every accepted route: %s" % short(src)[:100]
    # ---- the mapped closure: Ok(duplicate || similar), Err of the similarity test kept
    kb = F.bodies[kcl[1]]
    caps = tuple(kcl[2])
    def sub(x):
        def f(q):
            if q[0] == "field" and q[1] == ("arg", 1) and str(q[2]).isdigit() and int(q[2]) < len(caps):
                return caps[int(q[2])]
            return None
        return clean(rewrite(x, f))
    ELEM = ("arg", 2)
    targ = [i_ for i_ in range(1, b.argc + 1) if "RouteSimilarityFunction" in b.locals[i_]["ty"]]
    siarg = [i_ for i_ in range(1, b.argc + 1) if b.locals[i_]["ty"].endswith("SearchInstance")]
    def is_dup(q):
        q = sub(q)
        return q[0] == "call" and q[1] == DUP and set(q[2]) == {cand, ELEM}
    def is_sim(q):
        q = sub(q)
        if not (q[0] == "call" and q[1] == SIM and len(q[2]) == 4 and targ and siarg):
            return False
        a = q[2]
        return a[0] == ("arg", targ[0]) and a[3] == ("arg", siarg[0]) and contains(a[1], lambda z: z == cand) and contains(a[2], lambda z: z == ELEM)
    try:
        krows = [r for r in table(kb, max_paths=20000) if r.end == "return"]
    except TooManyPaths:
        return "unreadable test closure"
    n_ok = n_err = 0
    for r in krows:
        ret = nosite(deep_strip(r.ret)) if r.ret is not None else None
        if ret is not None and ret[0] == "call" and ret[1].endswith("::from_residual"):
            if not any(contains(clean(k), is_sim) and v in ("Break", "Err") for k, v in r.sel.items()):
                return "the test closure leaves with an Err that is not the similarity test's"
            n_err += 1
            continue
        if not (ret is not None and ret[0] == "agg" and ret[2] == "Ok" and len(ret[3]) == 1):
            return "the test closure returns something other than Ok(verdict): %s" % short(ret)[:80]
        v = ret[3][0][1]
        D = S = None
        for bt, l in r.bools:
            if is_dup(bt):
                D = cond_truth(l)
            elif is_sim(bt):
                S = cond_truth(l)
        for d_ in (True, False) if D is None else (D,):
            for s_ in (True, False) if S is None else (S,):
                if v[0] == "const" and v[1] == "bool":
                    got = v[2]
                elif is_dup(v):
                    got = d_
                elif is_sim(v):
                    got = s_
                else:
                    return "the verdict of the test closure is not built from the duplicate and similarity tests: %s" % short(v)[:80]
                if got != (d_ or s_):
                    return "the test closure does not yield duplicate || similar (duplicate=%s similar=%s gives %s)" % (d_, s_, got)
        n_ok += 1
    if n_ok == 0 or n_err == 0:
        return "the test closure has no Ok / no Err exit"
    if not any(any(is_dup(bt) for bt, _ in r.bools) or (r.ret is not None and contains(nosite(deep_strip(r.ret)), is_dup)) for r in krows):
        return "no exact-duplicate test of (candidate, accepted route) in the scan"
    if not any(contains(clean(k), is_sim) for r in krows for k in r.sel):
        return "no similarity test of (candidate, accepted route) in the scan"
    # ---- the predicate: true exactly for Err and Ok(true)
    pb = F.bodies[pcl[1]]
    def ev(x):
        x = nosite(deep_strip(x))
        if x[0] == "const" and x[1] == "bool":
            return x[2]
        if x[0] == "un" and x[1] == "Not":
            y = ev(x[2])
            return None if y is None else (not y)
        return None
    try:
        prows = [r for r in table(pb, max_paths=2000) if r.end == "return"]
    except TooManyPaths:
        return "unreadable find predicate"
    seen = set()
    for r in prows:
        cls = None
        for k, v in r.sel.items():
            if clean(k) != ("arg", 2):
                continue
            names = set(v[1]) if isinstance(v, tuple) else {v}
            if names == {"Err"}:
                cls = "err"
            elif names == {"Ok"}:
                bl = [cond_truth(l) for bt, l in r.bools if clean(bt) == ("arg", 2)]
                cls = ("ok", bl[0]) if len(bl) == 1 else None
        got = ev(r.ret) if r.ret is not None else None
        if cls is None or got is None:
            return "unreadable find predicate (one of its paths is not decided by Err / Ok(true) / Ok(false))"
        want = cls != ("ok", False)
        if got != want:
            return "the find predicate %s an element that is %s" % ("stops at" if got else "passes over", "Err" if cls == "err" else "Ok(%s)" % str(cls[1]).lower())
        seen.add(cls)
    if seen != {"err", ("ok", True), ("ok", False)}:
        return "the find predicate does not decide Err, Ok(true) and Ok(false)"
    return None


def _scan_accepted(ctx, F, b, tm, push, cand, sol, flag, false_blocks, gsw):
    """the candidate is rejected exactly when some accepted route is an exact duplicate of it or too similar to it: the scan over
    the accepted routes read turn by turn, in `run` or in a helper extracted from it.  Returns None or what is wrong."""
    DUP = K + "single_via_paths_algorithm::test_id_similarity"
    SIM = RSF + "::test_similarity"
    sims = [c for c in b.calls_deep(loops=True) if c.callee == SIM]
    if len(sims) == 0 and flag is None:
        ch = _scan_chain_form(F, b, tm, push, cand, sol)
        if ch != "n/a":
            return ch
    if len(sims) != 1:
        return "expected one similarity test, found %d" % len(sims)
    sim = sims[0]
    if isinstance(sim, VirtualCallSite):
        sb, inner_sim, via = sim.inner.body, sim.inner, sim.via
        actuals = tuple(tm.operand(a, via.bb) for a in via.args)
        sub = lambda t: substitute_args(t, actuals)
    else:
        sb, inner_sim, via = b, sim, None
        sub = lambda t: t
    C = lambda t: clean(sub(t))
    lp = innermost_loop(sb, inner_sim.bb)
    if lp is None:
        return "the similarity test is not inside a loop over the accepted routes"
    rows = [r for r in iteration_table(sb, lp[0], stop_at_exit=True) if r.kind != "diverge"]
    if not rows or not all(r.conds for r in rows):
        return "unreadable scan loop"
    full_rows = None
    if via is None and (sb.raw.get("inlined") or flag is None):
        # the scan was written out in place from a helper: what its verdict leads to is read on the paths that continue
        # past the loop (the literal Ok(true)/Ok(false) the copy ends with decides the caller's `if`)
        try:
            full_rows = [r for r in iteration_table(sb, lp[0], max_paths=20000) if r.kind != "diverge"]
        except TooManyPaths:
            full_rows = None

    def cleared_after(r):
        """the acceptance flag is false on every feasible continuation of this exit row"""
        if full_rows is None:
            return None
        k = len(r.blocks) - 1
        conts = [x for x in full_rows if x.blocks[:k] == r.blocks[:k] and len(x.blocks) > k and x.blocks[k] == r.blocks[k]]
        if not conts:
            return None
        # (the gate is decided on each such path by the flag's value there: a path on which it is false does not reach the push)
        return all(push.bb not in x.blocks for x in conts)
    d0 = C(rows[0].conds[0][0])
    if not (d0[0] == "discr" and d0[1][0] == "call" and re.search(r"::next$", d0[1][1]) and all(C(r.conds[0][0]) == d0 for r in rows)):
        return "the scan is not driven by an iterator over the accepted routes"
    ELEM = d0[1]
    src = ELEM[2][0]
    if not contains(src, lambda q: q == sol) or [x for x in calls_in(src) if re.search(r"Iterator>?::(take|skip|filter|step_by|rev|take_while|skip_while|filter_map)$", x[1])]:
        return "the scan does not visit every accepted route: %s" % short(src)[:100]
    stm = Terms(sb)
    DV = None
    for c in sb.calls():
        if c.callee == DUP and c.bb in lp[1]:
            t = C(stm.call_term(c.term, c.bb))
            if set(t[2]) == {cand, ELEM}:
                DV = t
    if DV is None:
        return "no exact-duplicate test of (candidate, accepted route) in the scan"
    st = C(stm.call_term(inner_sim.term, inner_sim.bb))
    a = st[2]
    # configured function (the algorithm's `similarity` argument) and search instance (`si`), by type
    targ = [i_ for i_ in range(1, b.argc + 1) if "RouteSimilarityFunction" in b.locals[i_]["ty"]]
    siarg = [i_ for i_ in range(1, b.argc + 1) if b.locals[i_]["ty"].endswith("SearchInstance")]
    if not (len(a) == 4 and targ and siarg and a[0] == ("arg", targ[0]) and a[3] == ("arg", siarg[0]) and contains(a[1], lambda q: q == cand) and contains(a[2], lambda q: q == ELEM)):
        return "the similarity test is not applied to (candidate, accepted route) with the configured function and instance"
    SV = st
    n_rej = 0
    for r in rows:
        some = None
        D = S = None
        err = False
        for dt, l, _ in r.conds:
            d = C(dt)
            names = set(l[1]) if isinstance(l, tuple) else {l}
            if d == d0:
                some = "Some" in names
            elif d == DV:
                D = cond_truth(l)
            elif d == SV:
                S = cond_truth(l)
            elif d[0] == "discr" and contains(d, lambda q: q == SV) and names <= {"Break", "Err"}:
                err = True
        if r.kind == "back":
            if not (D is False and S is False):
                return "the scan moves on to the next accepted route without both tests having failed (duplicate=%s similar=%s)" % (D, S)
            continue
        if r.kind != "exit":
            return "the scan contains an inner cycle"
        edge = (r.blocks[-2], r.blocks[-1])
        if err:
            vals = region_value(sb, edge) if via is not None or True else []
            if via is None:
                # in `run`: the Err leaves run
                pr = try_propagation(b, sim, tm)
                if pr["kind"] != "propagated":
                    return "Err of test_similarity not propagated"
            elif try_propagation(sb, inner_sim, stm)["kind"] not in ("propagated", "returned") or try_propagation(b, via, tm)["kind"] != "propagated":
                return "Err of test_similarity not propagated"
            continue
        if some is False:
            # exhausted: nothing rejected here
            if via is None and flag is None:
                if cleared_after(r) is True:
                    return "the candidate is rejected after all accepted routes passed both tests"
            elif via is None:
                if r.env.get(flag) is not None and clean(r.env[flag]) == ("const", "bool", False) or (gsw not in b.reachable(start=r.blocks[-1], removed_blocks=list(false_blocks)) and cleared_after(r) is not False) or cleared_after(r) is True:
                    return "the candidate is rejected after all accepted routes passed both tests"
            else:
                vals = region_value(sb, edge)
                if not vals or not all(clean(v) == ("agg", "std::result::Result", "Ok", (("0", ("const", "bool", False)),)) or clean(v) == ("const", "bool", False) for _, v in vals):
                    return "the helper does not report `no match` after all accepted routes passed both tests"
            continue
        if not (D is True or S is True):
            return "the scan stops at an accepted route although neither test matched (duplicate=%s similar=%s)" % (D, S)
        n_rej += 1
        if via is None:
            # from where the scan is left, the gate of the push is reached only through a block that clears the flag
            if flag is None:
                cleared = cleared_after(r) is True
            else:
                cleared = (r.env.get(flag) is not None and clean(r.env[flag]) == ("const", "bool", False)) or gsw not in b.reachable(start=r.blocks[-1], removed_blocks=list(false_blocks)) or cleared_after(r) is True
            if not cleared:
                return "a matching accepted route does not clear the acceptance flag"
        else:
            vals = region_value(sb, edge)
            if not vals or not all(clean(v) == ("agg", "std::result::Result", "Ok", (("0", ("const", "bool", True)),)) or clean(v) == ("const", "bool", True) for _, v in vals):
                return "the helper does not report a match for a duplicate / too similar accepted route"
    if n_rej < 2:
        return "expected a rejecting exit for the duplicate test and one for the similarity test"
    if via is not None:
        # the caller clears the flag exactly when the helper reports a match
        with no_inline():
            tm2 = Terms(b)
            verdict = clean(tm2.call_term(via.term, via.bb))
            hit = False
            for fb in false_blocks:
                for sbb, t, truth in controlling(b, tm2, fb):
                    while t[0] == "un" and t[1] == "Not":
                        t, truth = t[2], not truth
                    if clean(t) == verdict and truth:
                        hit = True
        if not hit:
            return "the acceptance flag is not cleared when the helper reports a match"
    return None


def _controlling13(b, tm, block):
    return controlling(b, tm, block)


def controlling(b, tm, block):
    """the bool conditions whose outcome is known when `block` runs: (switch block, condition term, its value)"""
    out = []
    for sbb, dt, names, t in switches(b, tm):
        if names is not None:
            continue
        f, tr = bool_targets(t)
        if tr is None or f is None or tr == f or sbb not in b.dom.get(block, ()):
            continue
        if b.dominates(tr, block) and not b.dominates(f, block):
            out.append((sbb, nosite(deep_strip(dt)), True))
        elif b.dominates(f, block) and not b.dominates(tr, block):
            out.append((sbb, nosite(deep_strip(dt)), False))
    return out


def R2_single_via(ctx):
    """C13.R2 acceptance pipeline (single-via)"""
    F = ctx.F
    ctx.rule("C13.R2", "single-via: solution[0] = backtrack(source, target, forward tree); a candidate is pushed only when loop-free, not a duplicate and dissimilar to every accepted route; via vertices are queued only if backtrackable in both trees; one pop per turn, exits on criteria / empty queue; result = take(k)", floor=9)
    b = F.need(K + "single_via_paths_algorithm::run")
    tm = Terms(b)
    pushes = [c for c in b.calls() if c.callee and c.callee.startswith("std::vec::Vec::<T, A>::push") and innermost_loop(b, c.bb) is not None]
    if len(pushes) != 1:
        raise AnchorMissing("single solution.push in the single-via loop (found %d)" % len(pushes))
    push = pushes[0]
    sol = deep_strip(tm.operand(push.args[0], push.bb))
    cand = nosite(deep_strip(tm.operand(push.args[1], push.bb)))
    # first route
    firsts = [c for c in b.calls_to(BT) if innermost_loop(b, c.bb) is None]
    okf = len(firsts) == 1
    if okf:
        a = [nosite(deep_strip(tm.operand(x, firsts[0].bb))) for x in firsts[0].args]
        okf = a[0] == ("field", ("arg", 1), "source") and a[1] == ("field", ("arg", 1), "target") and bool(calls_in(a[2], "first")) and contains(a[2], lambda s: s == ("agg", astar.A + "direction::Direction", "Forward", ()))
    ctx.check(okf, "first-route", "solution[0] is not the forward tree's backtracked route from source to target", b.where(), detail="backtrack(source, target, fwd_tree)")
    # gate variable
    ga = gate_var_analysis(b, tm, push)
    if ga is None:
        # no mutable flag: the push may be guarded by the verdicts themselves (`if !has_loop && !has_match { push }`)
        ctl = _controlling13(b, tm, push.bb)
        loop_ok = any(t[0] == "call" and t[1] == OPS + "route_contains_loop" and t[2][0] == cand and truth is False for _, t, truth in ctl)
        if not loop_ok:
            # decided path by path within one turn of the via loop: every path that reaches the push has seen the loop test fail
            lpo = innermost_loop(b, push.bb)
            try:
                trows = [r for r in iteration_table(b, lpo[0], max_paths=30000) if push.bb in r.blocks] if lpo else []
            except TooManyPaths:
                trows = []
            def saw_no_loop(r):
                for dt, l, _ in r.conds:
                    d = clean(dt)
                    neg = False
                    while d[0] == "un" and d[1] == "Not":
                        d, neg = d[2], not neg
                    if d[0] == "call" and d[1] == OPS + "route_contains_loop" and d[2][0] == clean(cand) and not isinstance(l, tuple):
                        return (cond_truth(l) != neg) is False
                return False
            loop_ok = bool(trows) and all(saw_no_loop(r) for r in trows)
        if not loop_ok:
            ctx.bad("push-gated", "the push of a candidate is not guarded by an acceptance flag or by the verdicts of the loop test and the scan", push.where())
            return
        ctx.ok("push-gated", "guarded by the verdicts directly")
        ctx.ok("reject:loop", "route_contains_loop(candidate) == false controls the push")
        why = _scan_accepted(ctx, F, b, tm, push, clean(cand), clean(sol), None, [], None)
        ctx.check(why is None, "reject:duplicate-or-similar", "the candidate is not compared (exact duplicate and similarity) with every already accepted route: %s" % why, push.where(), detail="for each accepted: duplicate || too_similar => reject")
        flag, false_blocks, gsw = None, [], None
    else:
        flag, false_blocks, gsw = ga
        ctx.ok("push-gated", "flag local %d" % flag)
    reasons = {"loop": flag is None}
    for fb in false_blocks:
        for _, t in controlling_true(b, tm, fb):
            if t[0] == "call" and t[1] == OPS + "route_contains_loop" and t[2][0] == cand:
                reasons["loop"] = True
    if flag is not None:
        ctx.check(reasons["loop"], "reject:loop", "a candidate containing a loop is not rejected (flag cleared when route_contains_loop(candidate) is true)", push.where(), detail="route_contains_loop(candidate) => reject")
    why = _scan_accepted(ctx, F, b, tm, push, clean(cand), clean(sol), flag, false_blocks, gsw) if flag is not None else None
    if flag is not None:
        ctx.check(why is None, "reject:duplicate-or-similar", "the candidate is not compared (exact duplicate and similarity) with every already accepted route: %s" % why, push.where(), detail="for each accepted: duplicate || too_similar => reject")
    # the two tests
    tid = F.need(K + "single_via_paths_algorithm::test_id_similarity")
    rows = [r for r in table(tid, max_paths=100000) if r.end == "return"]
    la, lb = ("call", "std::slice::<impl [T]>::len", (("arg", 1),)), ("call", "std::slice::<impl [T]>::len", (("arg", 2),))
    ok_len = any(("Ne", la, lb) in r.facts or ("Ne", lb, la) in r.facts for r in rows if r.ret == ("const", "bool", False))
    ctx.check(ok_len, "duplicate:length", "routes of different length are not reported as different", tid.where())
    # queue population guard
    qp = [c for c in b.calls() if c.callee and "PriorityQueue" in c.callee and c.callee.endswith("::push")]
    okq = len(qp) == 1
    if okq:
        ctl = [t for _, t in controlling_true(b, tm, qp[0].bb)]
        sel = [dt for sbb, dt, names, t in switches(b, tm) if names and b.dominates(switch_target(t, names, "Some"), qp[0].bb) and sbb in b.dom.get(qp[0].bb, ())]
        v = nosite(deep_strip(tm.operand(qp[0].args[1], qp[0].bb)))
        has_ck = any(t[0] == "call" and t[1].endswith("contains_key") and contains(t[2][1], lambda s: s == v) or (t[0] == "call" and t[1].endswith("contains_key") and nosite(t[2][1]) == nosite(v)) for t in ctl)
        has_get = any(contains(nosite(deep_strip(d)), lambda s: s[0] == "call" and s[1].endswith("HashMap::<K, V, S, A>::get")) for d in sel)
        if not (has_ck and has_get):
            fm_ = _queue_filter_map_form(F, b, tm, qp[0])
            if fm_ is not None:
                has_ck, has_get = fm_
        ctx.check(has_ck, "queue:via-in-reverse-tree", "a via vertex is queued without checking that the reverse tree can be backtracked from it (rev tree contains the vertex): its backtrack error would abort an answerable query", qp[0].where(), detail="rev_vertices.contains_key(vertex)")
        ctx.check(has_get, "queue:parent-in-reverse-tree", "a via vertex is queued without its parent appearing in the reverse tree", qp[0].where())
    else:
        ctx.bad("queue:push", "expected one push into the intersection queue, found %d" % len(qp), b.where())
    # loop exits: criteria true, or pop() == None ; one pop per turn
    loop = innermost_loop(b, [c for c in b.calls() if c.callee and "PriorityQueue" in c.callee and c.callee.endswith("::pop")][0].bb)
    outer = outermost_loop(b, push.bb)
    pops = [c for c in b.calls() if c.callee and "PriorityQueue" in c.callee and c.callee.endswith("::pop") and c.bb in outer[1]]
    ctx.check(len(pops) == 1 and pops[0].bb not in b.reach_from_succs(pops[0].bb, removed_blocks=[outer[0]]), "one-pop-per-turn", "the via queue is not popped exactly once per turn", b.where())
    tcs = [c for c in b.calls() if c.callee == K + "ksp_termination_criteria::KspTerminationCriteria::terminate_search" and c.bb in outer[1]]
    okt = len(tcs) == 1
    if okt:
        a = [nosite(deep_strip(tm.operand(x, tcs[0].bb))) for x in tcs[0].args]
        okt = a[1] == ("field", ("arg", 1), "k") and a[2][0] == "call" and a[2][1].endswith("::len") and a[2][2][0] == nosite(sol) and b.dominates(tcs[0].bb, pops[0].bb)
    ctx.check(okt, "criteria-each-turn", "the termination criteria are not tested with (k, number of accepted routes) before every pop", b.where())
    # result = the accepted routes cut to k: `solution.into_iter().take(k)` or `solution.truncate(k)` before it is returned
    kf = ("field", ("arg", 1), "k")
    tk = [c for c in b.calls() if c.callee and itm(c.callee, "take")]
    tr_ = [c for c in b.calls() if c.callee and c.callee.endswith("Vec::<T, A>::truncate")]
    res = [x for x in subterms(clean(tm.return_term())) if x[0] == "agg" and x[1].endswith("SearchAlgorithmResult")]
    routes = dict(res[0][3]).get("routes") if len(res) == 1 else None
    okk = False
    if routes is not None and len(tk) == 1 and not tr_:
        tt = clean(tm.call_term(tk[0].term, tk[0].bb))
        okk = clean(tm.operand(tk[0].args[1], tk[0].bb)) == kf and contains(clean(tm.operand(tk[0].args[0], tk[0].bb)), lambda q: q == clean(sol)) and contains(routes, lambda q: q == tt)
    elif routes is not None and len(tr_) == 1 and not tk:
        c = tr_[0]
        ret_bbs = [bb for bb, blk in enumerate(b.blocks) if blk["term"]["k"] == "return"]
        okk = clean(tm.operand(c.args[0], c.bb)) == clean(sol) and clean(tm.operand(c.args[1], c.bb)) == kf and innermost_loop(b, c.bb) is None and routes == clean(sol)
        # on every path that builds the result
        agg_bbs = [bb for bb, blk in enumerate(b.blocks) for st_ in blk["stmts"] if st_["k"] == "assign" and st_["rv"]["k"] == "agg" and st_["rv"].get("adt", "").endswith("SearchAlgorithmResult") and "routes" in (st_["rv"].get("fnames") or [])]
        okk = okk and bool(agg_bbs) and all(b.dominates(c.bb, bb) for bb in agg_bbs)
    ctx.check(okk, "take-k", "the result is not the accepted routes truncated to k", b.where(), detail="solution.into_iter().take(k)")


def R2b_loop_test(ctx):
    from props.C01 import loop_test_rule
    loop_test_rule(ctx, "C13.R2b")


def R2c_reorient(ctx):
    from props.C01 import R5_reorient
    R5_reorient(ctx, "C13.R2c")


def _spur_instance(ctx, F, b, tm, spur):
    # spur instance
    aggs = [(bb, pos, s) for bb, blk in enumerate(b.blocks) for pos, s in enumerate(blk["stmts"]) if s["k"] == "assign" and s["rv"]["k"] == "agg" and s["rv"].get("adt", "").endswith("search_instance::SearchInstance")]
    oki = len(aggs) == 1
    if oki:
        bb, pos, s = aggs[0]
        f = dict(nosite(deep_strip(tm.rvalue(s["rv"], bb, pos)))[3])
        same = all(f.get(n) == ("field", ("arg", 4), n) for n in ("directed_graph", "state_model", "traversal_model", "access_model", "cost_model", "termination_model"))
        fm = f.get("frontier_model")
        cut = fm is not None and fm[0] == "call" and fm[1].endswith("EdgeCutFrontierModel::new") and fm[2][0] == ("field", ("arg", 4), "frontier_model")
        ctx.check(same, "spur-instance:fields", "the spur SearchInstance does not reuse the caller's graph/state/traversal/access/cost/termination models", b.where(bb))
        ctx.check(cut, "spur-instance:cut-frontier", "the spur frontier is not EdgeCutFrontierModel::new(si.frontier_model, cut_edges)", b.where(bb), detail="EdgeCut(si.frontier_model, cut)")
        sa = [nosite(deep_strip(tm.operand(x, spur.bb))) for x in spur.args]
        ctx.check(contains(sa[5], lambda x: x[0] == "agg" and x[1].endswith("SearchInstance")) or root_local(b, spur.args[5]) == s["place"]["l"], "spur-search:instance", "the spur search does not run on the cut instance", spur.where())
        ctx.check(sa[2] == ("agg", "std::option::Option", "Some", (("0", ("field", ("arg", 1), "target")),)), "spur-search:target", "the spur search does not go to the query's target", spur.where())
    else:
        ctx.bad("spur-instance", "expected one SearchInstance construction, found %d" % len(aggs), b.where())


def spur_instance_rule(ctx, rid):
    """the alternative-route searches of Yen's algorithm run on the instance whose frontier excludes the cut edges (shared with C04)"""
    F = ctx.F
    ctx.rule(rid, "Yen's spur search runs on a SearchInstance that reuses the caller's models with EdgeCutFrontierModel::new(si.frontier_model, cut_edges) as frontier, towards the query's target", floor=3)
    b = F.need(K + "yens_algorithm::run")
    tm = Terms(b)
    runs = [c for c in b.calls() if c.callee == astar.A + "search_algorithm::SearchAlgorithm::run_vertex_oriented"]
    spur = [c for c in runs if innermost_loop(b, c.bb) is not None]
    if len(spur) != 1:
        raise AnchorMissing("spur search in yens_algorithm::run")
    _spur_instance(ctx, F, b, tm, spur[0])


def _queue_filter_map_form(F, b, tm, qpush):
    """the queue is filled from `fwd_tree.iter().filter_map(|(v, branch)| { let r = rev.get(&branch.terminal_vertex)?;
    rev.contains_key(v).then(|| (v, cost)) })`: the two membership tests decide inside the closure whether an element is
    yielded at all.  Returns (vertex test present, parent test present) or None when this shape is not used."""
    lp = innermost_loop(b, qpush.bb)
    if lp is None:
        return None
    nx = [c for c in b.calls() if c.bb in lp[1] and c.func.get("method") == "next" and b.dominates(c.bb, qpush.bb)]
    for c in nx:
        src = nosite(deep_strip(tm.operand(c.args[0], c.bb)))
        fms = [x for x in subterms(src) if x[0] == "call" and itm(x[1], "filter_map") and len(x[2]) == 2 and x[2][1][0] == "closure" and x[2][1][1] in F.bodies]
        if len(fms) != 1:
            continue
        cb = F.bodies[fms[0][2][1][1]]
        ctm = Terms(cb)
        # the pushed vertex is the first component of what the closure yields
        pv = clean(tm.operand(qpush.args[1], qpush.bb))
        elem = clean(tm.call_term(c.term, c.bb))
        if pv != ("field", elem, "0"):
            return (False, False)
        ck_ok = get_ok = True
        some_rows = 0
        for r in table(cb, max_paths=20000):
            if r.end != "return":
                continue
            ret = nosite(deep_strip(r.ret))
            if ret == ("agg", "std::option::Option", "None", ()) or (ret[0] == "call" and ret[1].endswith("::from_residual")):
                continue
            some_rows += 1
            # yielded only if the vertex is in the reverse tree: `cond.then(..)` or a branch on the test
            ck = None
            if ret[0] == "call" and re.search(r"bool>?::then(_some)?$|<impl bool>::then(_some)?$", ret[1].split("{")[0]):
                ck = clean(ret[2][0])
            else:
                for t_, l_ in r.bools:
                    tc = clean(t_)
                    if tc[0] == "call" and tc[1].endswith("contains_key") and cond_truth(l_):
                        ck = tc
            ck_ok = ck_ok and ck is not None and ck[0] == "call" and ck[1].endswith("contains_key") and clean(ck[2][1]) == ("field", ("arg", 2), "0")
            # .. and only if its parent is: the lookup's None leaves the closure with None
            gets = [(k, v) for k, v in r.sel.items() if contains(clean(k), lambda q: q[0] == "call" and q[1].endswith("HashMap::<K, V, S, A>::get") and contains(q, lambda z: z[0] == "field" and z[2] == "terminal_vertex"))]
            get_ok = get_ok and any(v in ("Some", "Continue") for _, v in gets)
        return (ck_ok and some_rows > 0, get_ok and some_rows > 0)
    return None


def spur_route_rule(ctx, rid):
    """a candidate of Yen's algorithm ends with the route the spur search found (shared with C01: a candidate without it is the
    root path alone, which stops at the spur vertex)"""
    F = ctx.F
    ctx.rule(rid, "Yen's: candidate = root path ++ the route found by the spur search towards the target; a spur search without a route yields no candidate (its absence is an Err / skips the candidate, never an empty or defaulted spur path)", floor=2)
    b = F.need(K + "yens_algorithm::run")
    tm = Terms(b)
    runs = [c for c in b.calls() if c.callee == astar.A + "search_algorithm::SearchAlgorithm::run_vertex_oriented"]
    spur = [c for c in runs if innermost_loop(b, c.bb) is not None]
    if len(spur) != 1:
        raise AnchorMissing("spur search in yens_algorithm::run")
    spur = spur[0]
    lp = innermost_loop(b, spur.bb)
    chains = [c for c in b.calls() if c.callee and itm(c.callee, "chain") and c.bb in lp[1]]
    if not ctx.check(len(chains) == 1, "candidate:root++spur", "expected one `root_path.chain(spur_path)` in the spur loop, found %d" % len(chains), b.where()):
        return
    ch = chains[0]
    raw = nosite(tm.operand(ch.args[1], ch.bb))
    dflt = [x for x in subterms(raw) if x[0] == "default" or (x[0] == "call" and re.search(r"(Option|Result)::<.*>::(unwrap_or_default|unwrap_or|unwrap_or_else|map_or|map_or_else)$|::or_else$|Option::<T>::or$", x[1].split("{")[0]))]
    st = clean(raw)
    while st[0] == "call" and len(st[2]) == 1 and re.search(r"::(iter|into_iter|as_slice|to_vec|as_ref)$|Iterator>?::(cloned|copied)$", st[1].split("{")[0]):
        st = st[2][0]
    sp = clean(tm.call_term(spur.term, spur.bb))
    src = None
    if st[0] == "call" and st[1] == K + "yens_algorithm::get_first_route" and contains(st[2][0], lambda q: q == sp):
        src = "get_first_route(spur result)"
    elif st[0] == "call" and st[1].endswith("::first") and len(st[2]) == 1 and st[2][0][0] == "field" and st[2][0][2] == "routes" and contains(st[2][0][1], lambda q: q == sp):
        src = "spur result.routes.first()"
    ctx.check(src is not None and not dflt, "candidate:spur-route-found", "the spur part of a candidate is not the route found by the spur search (%s): when the spur search has no route the root path alone — which stops at the spur vertex, not at the target — becomes a candidate" % ("defaulted through %s" % short(dflt[0])[:80] if dflt else short(st)[:120]), ch.where(), detail=src or "")
    root = clean(tm.operand(ch.args[0], ch.bb))
    ctx.check(contains(root, lambda q: q[0] == "call" and itm(q[1], "take")), "candidate:root-prefix", "the root part of a candidate is not a prefix (take) of the previously accepted path", ch.where())


def R3_yens(ctx):
    """C13.R3 Yen's structure"""
    F = ctx.F
    ctx.rule("C13.R3", "Yen's: first accepted = underlying first route; spur instance = caller's fields with EdgeCutFrontierModel(si.frontier_model, cut_edges); cut edge = accepted_path[spur_idx+1]; loop-free candidates; dissimilar to every accepted; one acceptance per outer turn; spur failures not propagated; progress; spur range guarded", floor=10)
    b = F.need(K + "yens_algorithm::run")
    tm = Terms(b)
    runs = [c for c in b.calls() if c.callee == astar.A + "search_algorithm::SearchAlgorithm::run_vertex_oriented"]
    first = [c for c in runs if innermost_loop(b, c.bb) is None]
    spur = [c for c in runs if innermost_loop(b, c.bb) is not None]
    ctx.check(len(first) == 1 and len(spur) == 1, "searches", "expected one initial and one spur search (found %d/%d)" % (len(first), len(spur)), b.where())
    if len(first) != 1 or len(spur) != 1:
        return
    first, spur = first[0], spur[0]
    a = [nosite(deep_strip(tm.operand(x, first.bb))) for x in first.args]
    ctx.check(a[1] == ("field", ("arg", 1), "source") and a[2] == ("agg", "std::option::Option", "Some", (("0", ("field", ("arg", 1), "target")),)) and a[5] == ("arg", 4), "first-search", "the initial search is not source -> target on the caller's instance", first.where())
    _spur_instance(ctx, F, b, tm, spur)
    # cut edge index
    # (a loop that inserts under a guard, or cut_edges.extend(accepted.iter().filter(..).filter_map(..).map(..)))
    cuts = [c for c in b.calls() if c.callee and c.callee.startswith("std::collections::HashSet::<T, S, A>::insert")]
    exts = [c for c in b.calls() if c.callee and re.search(r"Extend<.*>>::extend$", c.callee) and "HashSet" in b.locals[root_local(b, c.args[0])]["ty"]] if not cuts else []
    coll = None
    if not cuts and not exts:
        # the set is the collected chain itself: accepted.iter().filter(..).filter_map(|p| p.get(spur_idx + 1)).map(|e| e.edge_id).collect()
        for c in b.calls():
            if c.callee and c.callee.endswith("EdgeCutFrontierModel::new"):
                coll = tm.operand(c.args[1], c.bb)
    okc = len(cuts) + len(exts) == 1 or coll is not None
    if okc:
        gets = []
        if cuts:
            v = nosite(deep_strip(tm.operand(cuts[0].args[1], cuts[0].bb)))
            gets = [x for x in calls_in(v) if x[1] == "std::slice::<impl [T]>::get"]
            okc = contains(clean(v), lambda q: q[0] == "field" and q[2] == "edge_id")
        else:
            base, steps = chain_steps(F, coll if coll is not None else tm.operand(exts[0].args[1], exts[0].bb))
            names = [n for n, _ in steps]
            okc = not [n for n in names if n in ("take", "skip", "step_by", "rev", "take_while", "skip_while")]
            vals = [v_ for _, v_ in steps if v_ is not None]
            gets = [x for v_ in vals for x in calls_in(v_) if x[1] == "std::slice::<impl [T]>::get"]
            okc = okc and any(contains(v_, lambda q: q[0] == "field" and q[2] == "edge_id") for v_ in vals)
        okc = okc and len(gets) == 1
        if okc:
            A = Arith(F)
            idx = A.ev(gets[0][2][1])
            syms = idx.p.symbols()
            okc = len(syms) == 1 and idx.equals(Ratio(Poly.sym(next(iter(syms)))) + Ratio(Poly.const(1)))
    ctx.check(okc, "cut-edge:index", "the cut edge is not accepted_path[spur_idx + 1] (the edge after the shared root)", b.where(), detail="get(spur_idx + 1)")
    # accepted.push
    pushes = [c for c in b.calls() if c.callee and c.callee.startswith("std::vec::Vec::<T, A>::push") and innermost_loop(b, c.bb) is not None]
    outer = outermost_loop(b, spur.bb)
    spur_loop = None
    for h, blocks in b.natural_loops():
        if spur.bb in blocks and (h, blocks) != outer and (spur_loop is None or len(blocks) > len(spur_loop[1])):
            spur_loop = (h, blocks)
    if len(pushes) != 1 or spur_loop is None or outer is None:
        ctx.bad("accept-site", "cannot locate the acceptance push / spur loop", b.where())
        return
    push = pushes[0]
    # (c) loop freedom
    lt = b.calls_to(OPS + "route_contains_loop")
    ctx.check(bool(lt) and all(b.dominates(c.bb, push.bb) for c in lt), "yens_algorithm::run:no-loop-test", "a candidate (root ++ spur route) is accepted without a loop test and the spur search does not exclude the root path's vertices: a route revisiting a root vertex can be returned", push.where())
    # (d) one acceptance per outer iteration
    ctx.check(push.bb not in spur_loop[1], "yens_algorithm::run:push-inside-spur-loop", "accepted.push(best) sits inside the loop over spur indices: the same best candidate is pushed once per remaining spur index (duplicates) and more than k routes can be returned", push.where())
    # (d2) dissimilar to every accepted route
    sims = [c for c in b.calls_to(RSF + "::test_similarity")]
    oks = len(sims) == 1
    if oks:
        simloop = innermost_loop(b, sims[0].bb)
        # where is best_candidate assigned Some(..)?  must not be inside the loop over accepted
        some_assign = []
        for bb, blk in enumerate(b.blocks):
            for pos, s in enumerate(blk["stmts"]):
                if s["k"] == "assign" and s["rv"]["k"] == "agg" and s["rv"].get("adt") == "std::option::Option" and s["rv"]["variant"] == "Some" and "Cost" in b.locals[s["place"]["l"]]["ty"] and "Vec" in b.locals[s["place"]["l"]]["ty"]:
                    some_assign.append(bb)
        inside = [bb for bb in some_assign if simloop and bb in simloop[1]]
        ctx.check(bool(some_assign) and not inside, "yens_algorithm::run:dissimilar-to-some", "the candidate is recorded as best inside the loop over accepted routes on the first dissimilar one: it only has to differ from *some* accepted route, not from every one", sims[0].where())
    # (e) spur failures must not fail the query
    ef = error_flow(F, b, spur, tm)
    ctx.check(not ef["ok"], "yens_algorithm::run:spur-error-propagated", "the Err of a spur search (e.g. no path from a dead-end spur vertex) is propagated with `?`: an answerable query is turned into an error because one alternative search failed", spur.where())
    # (f) progress
    hdr = outer[0]
    cyc = hdr in b.reach_from_succs(hdr, removed_blocks=[push.bb])
    ctx.check(not cyc, "yens_algorithm::run:no-progress-exit", "the outer `while accepted.len() < k` loop can complete a turn without accepting a route and without leaving: when no dissimilar candidate exists it never terminates", b.where(hdr))
    # (g) spur range
    unguarded = []
    for bb, blk in enumerate(b.blocks):
        t = blk["term"]
        if t["k"] == "assert" and t.get("msg") == "Overflow" and t.get("op") == "Sub" and not blk["cleanup"]:
            a0 = nosite(deep_strip(tm.operand(t["a"], bb)))
            if calls_in(a0, "len") and innermost_loop(b, bb) is not None:
                c1 = nosite(deep_strip(tm.operand(t["b"], bb)))
                guards = [tt for _, tt in controlling_true(b, tm, bb) if as_cmp(tt) and (contains(tt, lambda s: s == a0))]
                if not guards:
                    unguarded.append((bb, short(a0)[:60], short(c1)))
    ctx.check(not unguarded, "yens_algorithm::run:spur-range-underflow", "`prev_accepted_path.len() - 2` is computed without a guard: a one-edge shortest path underflows (panic in debug, astronomically long loop in release) %s" % unguarded[:1], b.where())
    # helper tables
    sp = F.need(K + "yens_algorithm::same_path")
    rows = [r for r in table(sp, max_paths=100000) if r.end == "return"]
    la, lb = ("call", "std::slice::<impl [T]>::len", (("arg", 1),)), ("call", "std::slice::<impl [T]>::len", (("arg", 2),))
    ctx.check(any((("Ne", la, lb) in r.facts or ("Ne", lb, la) in r.facts) and r.ret == ("const", "bool", False) for r in rows), "same_path:length", "same_path does not report routes of different length as different", sp.where())


def R4_criteria(ctx):
    """C13.R4 termination criteria and k override"""
    F = ctx.F
    ctx.rule("C13.R4", "KspTerminationCriteria::Exact => solution_size == k; KspQuery::new takes k from the query when present, else the configured one", floor=3)
    b = F.need(K + "ksp_termination_criteria::KspTerminationCriteria::terminate_search")
    rows = [r for r in table(b) if r.end == "return" and r.sel.get(("arg", 1)) == "Exact"]
    ok = len(rows) == 1 and as_cmp(rows[0].ret) and as_cmp(rows[0].ret)[0] == "Eq" and {as_cmp(rows[0].ret)[1], as_cmp(rows[0].ret)[2]} == {("arg", 2), ("arg", 3)}
    ctx.check(bool(ok), "Exact", "Exact is not `solution_size == k`", b.where(), detail="size == k")
    # the criteria are total functions of (k, solution size): `factor` and `max` come from the configuration unvalidated
    # (0 is accepted), so a division or remainder by them turns an answerable query into a panic
    divs = [(bb, blk["term"].get("msg")) for bb, blk in enumerate(b.blocks) if not blk["cleanup"] and blk["term"]["k"] == "assert" and blk["term"].get("msg") in ("DivisionByZero", "RemainderByZero")]
    ctx.check(not divs, "criteria:total", "terminate_search divides by a configured value that may be 0 (%s): the query panics instead of terminating" % [m for _, m in divs][:2], b.where(divs[0][0]) if divs else b.where(), detail="no division by factor / max")
    qb = F.need(K + "ksp_query::KspQuery::<'a>::new")
    oks = [r for r in table(qb) if r.end == "return" and result_variant(r.ret) == "Ok"]
    ks = set()
    for r in oks:
        f = dict(agg_payload(r.ret)[3])
        ks.add(f.get("k"))
        ctx.check(f.get("source") == ("arg", 1) and f.get("target") == ("arg", 2) and f.get("user_query") == ("arg", 3), "query-fields", "KspQuery fields are not (source, target, query)", qb.where())
    flat = set()
    for k in ks:
        flat |= set(k[1]) if k[0] == "phi" else {k}
    has_q = any(contains(k, lambda s: s[0] == "const" and s[2] == "k") for k in flat)
    has_d = any(k == ("arg", 4) or contains(k, lambda s: s == ("arg", 4)) for k in flat)
    ctx.check(has_q and has_d, "k-override", "k is not query[\"k\"] when present and the configured default otherwise: %s" % [short(k)[:80] for k in flat], qb.where(), detail="query.k or default")


def R5_spur_route(ctx):
    """C13.R5 a candidate ends with the found spur route"""
    spur_route_rule(ctx, "C13.R5")


def R6_destination_state(ctx):
    """C13.R6 = C03.R9: every returned route of an edge-oriented k-shortest-paths query ends with the state of that same route"""
    from props.C03 import R9_synthetic_destination_state
    R9_synthetic_destination_state(ctx)


RULES = [R1_similarity, R2_single_via, R2b_loop_test, R2c_reorient, R3_yens, R4_criteria, R5_spur_route, R6_destination_state]
