"""C04 — routes and trees never use an edge or turn the query is forbidden to use."""
from core import *
import astar
import common
from astar import AStar

EXPLANATION = (
    "C04: the frontier test dominates every tree/g-score insertion in the search loop, on the same edge, with the popped vertex's "
    "state and its real last edge, a `false` verdict skips the edge and an Err is propagated; relaxation is strict (a tie never "
    "re-parents an expanded vertex whose children were validated against the old entry edge); combination is a conjunction over all "
    "inner models; per-model predicates (vehicle restriction table incl. unit-conversion direction, road class, turn pair, cut edges); "
    "who may call valid_frontier; travel order of the (edge, previous edge) pair in both search directions. "
    "Not decided: stale labels under path-dependent restrictions on every graph; float boundary behaviour."
)

FM = "routee_compass_core::model::frontier::frontier_model::FrontierModel"
CFG = "routee_compass::app::compass::config::frontier_model::"


def vf_impl(name):
    return "<%s as %s>::valid_frontier" % (name, FM)


def R1_gate(ctx):
    """C04.R1 frontier gate dominates every tree insertion"""
    ctx.rule("C04.R1", "in run_a_star every tree / g-score insertion for edge e is gated by valid_frontier(e, state of popped vertex, its last edge); false => continue; Err propagated", floor=9)
    a = AStar(ctx.F)
    b, tm = a.body, a.tm
    vf = a.vf
    # the gate switch
    verdict = strip_try(deep_strip(tm.call_term(vf.term, vf.bb)))
    gate = None
    for bb, dt, names, t in switches(b, tm):
        d = deep_strip(dt)
        neg = False
        if d[0] == "un" and d[1] == "Not":
            d, neg = d[2], True
        if nosite(d) == nosite(verdict):
            f, tr = bool_targets(t)
            if neg:
                f, tr = tr, f
            gate = (bb, f, tr)
    if gate is None:
        ctx.bad("gate-branch", "the verdict of valid_frontier is not branched on (result ignored)", vf.where())
        return
    gbb, gf, gt = gate
    for name, cs in (("tree-insert", a.ins_tree), ("gscore-insert", a.ins_cost), ("requeue", a.requeue), ("edge-traversal", a.pet)):
        ok = must_pass_edge(b, a.next.bb, (gbb, gt), cs.bb)
        ctx.check(ok, "gated:" + name, "%s is reachable within an iteration without a `true` verdict of valid_frontier" % name, cs.where())
    # the false edge goes to the next element without inserting
    r = b.reachable(start=gf, removed_blocks=[a.next.bb])
    leak = [n for n, cs in (("tree-insert", a.ins_tree), ("gscore-insert", a.ins_cost), ("requeue", a.requeue)) if cs.bb in r]
    ctx.check(not leak, "false=>skip", "after a `false` verdict the iteration still reaches: %s" % leak, vf.where())
    pr = try_propagation(b, vf, tm)
    ctx.check(pr["kind"] == "propagated", "err-propagated", "Err of valid_frontier is not propagated: %s" % pr["detail"], vf.where(), detail=pr["detail"])
    # same edge everywhere
    e = nosite(a.e)
    want_e = ("call", "routee_compass_core::model::network::graph::Graph::get_edge", (("field", ("arg", 5), "directed_graph"), nosite(a.edge_id)))
    ctx.check(e == want_e, "gate-edge", "the edge handed to the gate is not graph.get_edge(<edge id yielded by the incident-edge iterator>): %s" % short(e), vf.where(), detail=short(e))
    key = nosite(a.arg(a.ins_tree, 1))
    want_key = ("call", astar.DIR + "tree_key_vertex_id", (("arg", 3), e))
    ctx.check(key == want_key, "insert-key-same-edge", "the tree key is not tree_key_vertex_id(<gated edge>): %s" % short(key), a.ins_tree.where(), detail=short(key))
    pet_edge = nosite(a.arg(a.pet, 1))
    ctx.check(pet_edge == nosite(a.edge_id), "traversed-edge-same", "the traversed edge id is not the gated edge's id: %s" % short(pet_edge), a.pet.where(), detail=short(pet_edge))
    val = nosite(a.arg(a.ins_tree, 2))
    okv = val[0] == "agg" and dict(val[3]).get("edge_traversal") == nosite(strip_try(deep_strip(tm.call_term(a.pet.term, a.pet.bb))))
    ctx.check(okv, "insert-value-same-edge", "the inserted branch does not carry the traversal of the gated edge: %s" % short(val)[:200], a.ins_tree.where())
    # state = state of the popped vertex
    st = nosite(a.arg(vf, 2))
    cur = nosite(a.current())
    tree_map = nosite(a.arg(a.ins_tree, 0))
    init = ("call", "routee_compass_core::model::state::state_model::StateModel::initial_state", (("field", ("arg", 5), "state_model"),))
    stored = ("field", ("field", ("call", "std::collections::HashMap::<K, V, S, A>::get", (tree_map, cur)), "edge_traversal"), "result_state")
    oks = st == mk_phi([init, stored]) or st == stored
    ctx.check(oks, "gate-state", "the state handed to the gate is not the popped vertex's state: %s" % short(st), vf.where(), detail=short(st))
    # last edge = edge through which the popped vertex was reached
    le = nosite(a.arg(vf, 3))
    glt = ("call", astar.A + "a_star::a_star_algorithm::get_last_traversed_edge_id", (cur, ("arg", 1), tree_map))
    some = ("agg", "std::option::Option", "Some", (("0", ("call", "routee_compass_core::model::network::graph::Graph::get_edge", (("field", ("arg", 5), "directed_graph"), glt))),))
    some2 = ("agg", "std::option::Option", "Some", (("0", some[3][0][1]),))
    none = ("agg", "std::option::Option", "None", ())
    okl = le in (mk_phi([none, some]), mk_phi([none, some2]))
    if not okl:
        # the same value written with adaptors: get_last_traversed_edge_id(..)?.map(|id| graph.get_edge(id)).transpose()?
        le2 = nosite(deep_strip(norm_adaptors(ctx.F, le)))
        okl = le2 == some[3][0][1] or le2 in (mk_phi([none, some]), mk_phi([none, some2]))
    ctx.check(okl, "gate-last-edge", "previous_edge is not Some(get_edge(get_last_traversed_edge_id(popped, source, tree))) / None: %s" % short(le), vf.where(), detail=short(le))
    # get_last_traversed_edge_id: source => None ; else tree[v].edge_traversal.edge_id ; missing => Err
    g = ctx.F.need(astar.A + "a_star::a_star_algorithm::get_last_traversed_edge_id")
    rows = [r for r in table(g) if r.end == "return"]
    seen = set()
    for r in rows:
        eq = [cond_truth(l) for bt, l in r.bools if as_cmp(bt) and as_cmp(bt)[0] == "Eq" and {as_cmp(bt)[1], as_cmp(bt)[2]} == {("arg", 1), ("arg", 2)}]
        if eq == [True]:
            seen.add("source")
            ctx.check(result_variant(r.ret) == "Ok" and result_variant(agg_payload(r.ret)) == "None", "last-edge:source", "the search origin is not given `no last edge`: %s" % short(r.ret), g.where())
        elif eq == [False]:
            if result_variant(r.ret) == "Ok":
                seen.add("tree")
                v = agg_payload(agg_payload(r.ret))
                want = ("field", ("field", ("call", "std::collections::HashMap::<K, V, S, A>::get", (("arg", 3), ("arg", 1))), "edge_traversal"), "edge_id")
                ctx.check(v == want, "last-edge:tree", "last edge is not tree[vertex].edge_traversal.edge_id: %s" % short(r.ret), g.where(), detail=short(v))
    for k in ("source", "tree"):
        if k not in seen:
            ctx.bad("last-edge:missing-" + k, "get_last_traversed_edge_id lacks the %s case" % k, g.where())
    ctx.a = a


def R1b_strict_relaxation(ctx):
    """C04.R1b a label is replaced only on a strictly smaller cost"""
    ctx.rule("C04.R1b", "tree/g-score replacement only on the true edge of tentative < existing (strict): an equal-cost path never re-parents a vertex", floor=2)
    a = getattr(ctx, "a", None) or AStar(ctx.F)
    rel = relaxation(a)
    if rel is None:
        ctx.bad("relaxation-branch", "no comparison of tentative and existing g-score gates the insertions", a.ins_cost.where())
        return
    bb, f, tr, c = rel
    ctx.check(c[0] == "Lt", "strict", "the relaxation comparison is %s, not strictly-less" % c[0], a.body.where(bb), detail="%s(%s, %s)" % (c[0], short(c[1])[:80], short(c[2])[:80]))
    for name, cs in (("tree-insert", a.ins_tree), ("gscore-insert", a.ins_cost)):
        ctx.check(must_pass_edge(a.body, a.next.bb, (bb, tr), cs.bb), "relax-gates:" + name, "%s reachable without tentative < existing" % name, cs.where())


def relaxation(a):
    """the switch gating the inserts on cmp(tentative, existing): returns (bb, false_t, true_t, canon cmp)"""
    b, tm = a.body, a.tm
    val = nosite(a.arg(a.ins_cost, 2))  # the tentative g-score written
    for bb, dt, names, t in switches(b, tm):
        if bb not in a.loop_blocks:
            continue
        d = deep_strip(dt)
        c = as_cmp(d)
        if not c:
            continue
        c = canon_cmp((c[0], nosite(c[1]), nosite(c[2])))
        if val in (c[1], c[2]):
            f, tr = bool_targets(t)
            # orientation: want "tentative OP existing"
            if c[1] != val:
                c = (CMP_MIRROR[c[0]], c[2], c[1])
            if c[0] in ("Gt", "Ge"):
                # tentative > existing gating inserts on the *false* edge: normalise
                c = (CMP_NEG[c[0]], c[1], c[2])
                f, tr = tr, f
            return (bb, f, tr, c)
    return None


def R2_conjunction(ctx):
    """C04.R2 combination is a conjunction"""
    F = ctx.F
    ctx.rule("C04.R2", "CombinedFrontierModel tests all inner models (any false => false, true only after all); service builds one model per inner service; EdgeCut: member => false else underlying verdict", floor=5)
    cb = F.need(vf_impl(CFG + "combined::combined_model::CombinedFrontierModel"))
    res = forall_loop(cb, lambda c: c.func.get("trait") == FM and c.func.get("method") == "valid_frontier")
    ctx.check(res["ok"], "combined:forall", "CombinedFrontierModel::valid_frontier is not `all inner models permit`: %s" % "; ".join(res["problems"]), cb.where(), detail="loop over inner_models with early false")
    if res.get("inner") is not None and "collection" in res:
        coll = res["collection"]
        okc = contains(coll, lambda s: s == ("field", ("arg", 1), "inner_models"))
        ctx.check(okc, "combined:collection", "the loop does not range over self.inner_models: %s" % short(coll), cb.where(), detail=short(coll))
        inner = res["inner"]
        tm = Terms(cb)
        args = [deep_strip(tm.operand(x, inner.bb)) for x in inner.args[1:]]
        ctx.check(args == [("arg", 2), ("arg", 3), ("arg", 4), ("arg", 5)], "combined:args", "inner models are not asked about the same (edge, state, previous_edge, state_model): %s" % [short(x) for x in args], inner.where())
    # service: map over all inner services, collect
    sb = F.need("<%scombined::combined_service::CombinedFrontierService as routee_compass_core::model::frontier::frontier_model_service::FrontierModelService>::build" % CFG)
    rt = nosite(deep_strip(Terms(sb).return_term()))
    aggs = [s for s in subterms(rt) if s[0] == "agg" and s[1].endswith("CombinedFrontierModel")]
    oks = False
    det = short(rt)[:200]
    if len(aggs) == 1:
        im = dict(aggs[0][3]).get("inner_models")
        # collect(map(iter(self.inner_services), closure))
        names = [c[1] for c in calls_in(im)]
        trunc = [n for n in names if re.search(r"Iterator>?::(take|skip|filter|step_by|filter_map|take_while|skip_while)$", n)]
        oks = contains(im, lambda s: s == ("field", ("arg", 1), "inner_services")) and any(itm(n, "map") for n in names) and any("Iterator::collect" in n for n in names) and not trunc
        det = short(im)[:200]
    ctx.check(oks, "combined:service-builds-all", "CombinedFrontierService::build does not build one model per inner service: %s" % det, sb.where(), detail=det)
    # EdgeCut
    eb = F.need(vf_impl("routee_compass_core::algorithm::search::util::edge_cut_frontier_model::EdgeCutFrontierModel"))
    rows = [r for r in table(eb) if r.end == "return"]
    member = ("call", "std::collections::HashSet::<T, S, A>::contains", (("field", ("arg", 1), "cut_edges"), ("field", ("arg", 2), "edge_id")))
    seen = set()
    for r in rows:
        for bt, lab in r.bools:
            if bt == member:
                truth = cond_truth(lab)
                seen.add(truth)
                if truth:
                    ctx.check(truthy(r.ret, False), "edgecut:member=>false", "a cut edge is not rejected: %s" % short(r.ret), eb.where(), detail=short(r.ret))
                else:
                    want = ("call", FM + "::valid_frontier", (("field", ("arg", 1), "underlying"), ("arg", 2), ("arg", 3), ("arg", 4), ("arg", 5)))
                    ctx.check(r.ret == want, "edgecut:else=>underlying", "a non-cut edge is not decided by the underlying model unchanged: %s" % short(r.ret), eb.where(), detail=short(r.ret))
    if seen != {True, False}:
        ctx.bad("edgecut:membership-test", "EdgeCutFrontierModel does not branch on cut_edges.contains(edge.edge_id)", eb.where())


VEH_FIELDS = {
    "MaximumTotalWeight": ("total_weight", "weight_unit::WeightUnit", False),
    "MaximumWeightPerAxle": ("total_weight", "weight_unit::WeightUnit", True),
    "MaximumLength": ("total_length", "distance_unit::DistanceUnit", False),
    "MaximumWidth": ("width", "distance_unit::DistanceUnit", False),
    "MaximumHeight": ("height", "distance_unit::DistanceUnit", False),
    "MaximumTrailerLength": ("trailer_length", "distance_unit::DistanceUnit", False),
}


def R3_predicates(ctx):
    """C04.R3 per-model predicates"""
    F = ctx.F
    ctx.rule("C04.R3", "VehicleRestriction::valid per variant: matching vehicle field, vehicle_unit.convert(value, restriction_unit), <= limit, per-axle division; restriction model: all restrictions of edge.edge_id; road class: lookup[edge_id] in allowed set, missing row => Err; turn pair = (previous.edge_id, edge.edge_id), member => false", floor=6 + 2 + 3 + 3)
    vb = F.need(CFG + "vehicle_restrictions::vehicle_restriction::VehicleRestriction::valid")
    rows = [r for r in table(vb) if r.end == "return"]
    seen = set()
    U = "routee_compass_core::model::unit::"
    for r in rows:
        v = r.sel.get(("arg", 1))
        if v not in VEH_FIELDS:
            ctx.bad("vehicle:%s" % (v,), "unknown restriction variant — extend the table", vb.where())
            continue
        seen.add(v)
        field, unit, per_axle = VEH_FIELDS[v]
        c = as_cmp(r.ret)
        if not c:
            ctx.bad("vehicle:%s:cmp" % v, "result is not a comparison: %s" % short(r.ret), vb.where())
            continue
        c = canon_cmp(c)
        lim = ("field", ("field", ("variant", ("arg", 1), v), "0"), "0")
        runit = ("field", ("field", ("variant", ("arg", 1), v), "0"), "1")
        vv = ("field", ("field", ("arg", 2), field), "0")
        vu = ("field", ("field", ("arg", 2), field), "1")
        conv = ("call", U + unit + "::convert", (vu, vv, runit))
        lhs = c[1]
        ok = c[0] == "Le" and c[2] == lim
        if per_axle:
            A = Arith(F, {conv: "w", ("cast", "IntToFloat", ("field", ("arg", 2), "number_of_axles"), "f64"): "n"})
            r_ = A.ev(lhs)
            ok = ok and r_.equals(Ratio(Poly.sym("w")) / Ratio(Poly.sym("n")))
        else:
            ok = ok and lhs == conv
        ctx.check(ok, "vehicle:%s" % v, "predicate is not `vehicle.%s (converted vehicle unit -> restriction unit%s) <= limit`: %s" % (field, ", per axle" if per_axle else "", short(r.ret)), vb.where(), detail=short(r.ret))
    for v in VEH_FIELDS:
        if v not in seen:
            ctx.bad("vehicle:%s:missing" % v, "no return path for restriction variant", vb.where())
    # restriction model: all restrictions of this edge
    mb = F.need(vf_impl(CFG + "vehicle_restrictions::vehicle_restriction_model::VehicleRestrictionFrontierModel"))
    res = forall_loop(mb, lambda c: c.callee == CFG + "vehicle_restrictions::vehicle_restriction::VehicleRestriction::valid")
    ctx.check(res["ok"], "vehicle-model:forall", "not `all restrictions of the edge are valid`: %s" % "; ".join(res["problems"]), mb.where())
    if "collection" in res:
        coll = nosite(res["collection"])
        lk = [c for c in calls_in(coll) if c[1].startswith("std::collections::HashMap::<K, V, S, A>::get")]
        okl = len(lk) == 1 and lk[0][2] == (("field", ("field", ("arg", 1), "service"), "vehicle_restriction_lookup"), ("field", ("arg", 2), "edge_id"))
        ctx.check(okl, "vehicle-model:lookup", "restrictions are not looked up by edge.edge_id: %s" % short(coll), mb.where(), detail=short(coll))
        inner = res["inner"]
        a1 = deep_strip(Terms(mb).operand(inner.args[1], inner.bb))
        ctx.check(a1 == ("field", ("arg", 1), "vehicle_parameters"), "vehicle-model:parameters", "restrictions are not tested against the query's vehicle_parameters: %s" % short(a1), inner.where())
    # road class
    rb = F.need(vf_impl(CFG + "road_class::road_class_model::RoadClassFrontierModel"))
    raw = Terms(rb)
    rows = [r for r in table(rb) if r.end == "return"]
    for r in rows:
        v = r.sel.get(("field", ("arg", 1), "road_classes"))
        if v == "None":
            ctx.check(truthy(r.ret, True), "roadclass:none=>true", "no road-class filter does not permit the edge: %s" % short(r.ret), rb.where())
        elif v == "Some":
            t = r.ret
            ok = t[0] == "call" and t[1].endswith("::map") and t[2][1][0] == "closure"
            get = [c for c in calls_in(t) if re.search(r"slice::<impl \[T\]>::get$", c[1])]
            ok = ok and len(get) == 1 and get[0][2][1] == ("field", ("field", ("arg", 2), "edge_id"), "0") and contains(get[0][2][0], lambda s: s == ("field", ("field", ("arg", 1), "service"), "road_class_lookup"))
            ctx.check(ok, "roadclass:lookup", "road class is not lookup[edge.edge_id.0] mapped through the membership test: %s" % short(t), rb.where(), detail=short(t)[:160])
            if ok:
                cl = F.need(t[2][1][1])
                crt = nosite(deep_strip(Terms(cl).return_term()))
                okm = crt[0] == "call" and crt[1].startswith("std::collections::HashSet::<T, S, A>::contains") and crt[2] == (("field", ("arg", 1), "0"), ("arg", 2)) and t[2][1][2] == (("field", ("arg", 1), "road_classes"),)
                ctx.check(okm, "roadclass:membership", "verdict is not `allowed_classes.contains(class of edge)` (negated or different set): %s" % short(crt), cl.where(), detail=short(crt))
            # missing row => Err : in the unstripped value the slice get goes through ok_or / ok_or_else
            p = r.path
            rawt = path_return_term(rb, p)
            miss = [c for c in calls_in(rawt) if re.search(r"Option::<T>::(ok_or|ok_or_else)$", c[1])]
            ctx.check(bool(miss), "roadclass:missing=>Err", "a missing road-class row is not turned into an Err", rb.where())
    # turn restriction
    tb = F.need(vf_impl(CFG + "turn_restrictions::turn_restriction_model::TurnRestrictionFrontierModel"))
    rows = [r for r in table(tb) if r.end == "return"]
    pair_ok = None
    truth = {}
    want = (("prev_edge_id", ("field", ("arg", 4), "edge_id")), ("next_edge_id", ("field", ("arg", 2), "edge_id")))

    def is_member(bt):
        return bt[0] == "call" and bt[1].startswith("std::collections::HashSet::<T, S, A>::contains")

    def check_pair(bt):
        pair = bt[2][1]
        return pair[0] == "agg" and pair[1].endswith("::RestrictedEdgePair") and tuple(sorted(pair[3])) == tuple(sorted(want)) and bt[2][0] == ("field", ("field", ("arg", 1), "service"), "restricted_edge_pairs")

    for r in rows:
        v = r.sel.get(("arg", 4))
        if v == "None":
            ctx.check(truthy(r.ret, True), "turn:no-previous=>true", "without a previous edge the turn model does not permit: %s" % short(r.ret), tb.where())
        elif v == "Some":
            branched = [(bt, lab) for bt, lab in r.bools if is_member(bt)]
            for bt, lab in branched:
                pair_ok = check_pair(bt) if pair_ok is None else (pair_ok and check_pair(bt))
                if truthy(r.ret, True):
                    truth[cond_truth(lab)] = True
                elif truthy(r.ret, False):
                    truth[cond_truth(lab)] = False
            if not branched:
                # unbranched spelling: Ok(!set.contains(pair)) / Ok(set.contains(pair))
                pay = agg_payload(r.ret) if result_variant(r.ret) == "Ok" else r.ret
                neg = False
                if pay is not None and pay[0] == "un" and pay[1] == "Not":
                    pay, neg = pay[2], True
                if pay is not None and is_member(pay):
                    pair_ok = check_pair(pay) if pair_ok is None else (pair_ok and check_pair(pay))
                    truth[True] = not neg
                    truth[False] = neg
    ctx.check(truth.get(True) is False, "turn:member=True", "a restricted pair is not refused (membership true must give false): %s" % truth, tb.where(), detail="member => false")
    ctx.check(truth.get(False) is True, "turn:member=False", "an unrestricted pair is not permitted (membership false must give true): %s" % truth, tb.where(), detail="not member => true")
    ctx.check(bool(pair_ok), "turn:pair", "the tested pair is not {prev: previous_edge.edge_id, next: edge.edge_id} against service.restricted_edge_pairs", tb.where())
    # NoRestriction
    nb = F.bodies.get(vf_impl("routee_compass_core::model::frontier::default::no_restriction::NoRestriction")) or F.need(FM + "::valid_frontier")
    ctx.check(truthy(nosite(deep_strip(Terms(nb).return_term())), True), "no-restriction", "NoRestriction (trait default) does not permit every edge", nb.where())


def R3b_parser(ctx):
    """C04.R3 RoadClassParser: unknown class name => Err"""
    F = ctx.F
    ctx.rule("C04.R3b", "RoadClassParser::read_query: a class name missing from the mapping is an Err (ok_or_else + `?`/collect into Result); Ok(None) only when the field is absent", floor=2)
    import core as _core
    found = False
    bad = []
    for kb in tree_of(F, CFG + "road_class::road_class_parser::RoadClassParser::read_query"):
        ktm = Terms(kb)
        for c in kb.calls():
            if not (c.callee or "").startswith("std::collections::HashMap::<K, V, S, A>::get"):
                continue
            recv = clean(ktm.operand(c.args[0], c.bb))
            if not contains(recv, lambda q: q[0] == "field" and q[2] == "mapping"):
                continue
            ct = nosite(ktm.call_term(c.term, c.bb))
            # the lookup's None becomes an Err: through ok_or(_else) on the way out, or on every path where it is None
            wrapped = [x for x in subterms(nosite(ktm.return_term())) if x[0] == "call" and re.search(r"Option::<T>::ok_or(_else)?$", x[1].split("{")[0]) and contains(x[2][0], lambda q: q == ct)]
            if wrapped or _core.none_is_err(kb, c, ktm):
                found = True
            else:
                bad.append(c)
    # "no restriction" (Ok(None)) is what an *absent* road_classes field means; a field that is present — even an empty list,
    # which permits no edge at all — is Some(set) or an Err (round 7: `"road_classes": []` read as no filter, found twice)
    rq = F.need(CFG + "road_class::road_class_parser::RoadClassParser::read_query")
    none_rows = absent_rows = 0
    try:
        for r in table(rq, max_paths=100000):
            if r.end != "return":
                continue
            v = ok_value(r)
            if v is None or not (v[0] == "agg" and v[1] == "std::option::Option" and v[2] == "None"):
                continue
            none_rows += 1
            if any(d[0] == "call" and d[1].split("{")[0].endswith("Value::get") and lbl == "None" for d, lbl in r.sel.items()):
                absent_rows += 1
        okn = none_rows >= 1 and none_rows == absent_rows
    except TooManyPaths:
        okn = False
    ctx.check(okn, "no-filter-only-when-absent", "read_query returns Ok(None) (no restriction) on %d path(s) where the road_classes field is present" % (none_rows - absent_rows), rq.where(), detail="Ok(None) <=> query.get(road_classes) is None")
    found = found and not bad
    ctx.check(found, "unknown-class=>Err", "no closure in read_query turns a failed mapping lookup into an Err", F.need(CFG + "road_class::road_class_parser::RoadClassParser::read_query").where())


def R4_who_may_call(ctx):
    """C04.R4 who may call valid_frontier"""
    F = ctx.F
    ctx.rule("C04.R4", "valid_frontier is called only from the search loop, the combinators (Combined, EdgeCut) and the edge map-matcher", floor=3)
    allowed = {
        astar.RUN: "search loop",
        vf_impl(CFG + "combined::combined_model::CombinedFrontierModel"): "combinator",
        vf_impl("routee_compass_core::algorithm::search::util::edge_cut_frontier_model::EdgeCutFrontierModel"): "combinator",
        # the edge-oriented wrappers *should* submit the two edges they add (C04.R8, recorded findings): a repair there is welcome
        astar.A + "a_star::a_star_algorithm::run_a_star_edge_oriented": "edge-oriented wrapper (origin / destination edge)",
        astar.A + "search_algorithm::SearchAlgorithm::run_edge_oriented": "edge-oriented wrapper (origin / destination edge)",
    }
    for b in F.local_bodies():
        for c in b.calls():
            if c.func.get("method") == "valid_frontier" and (c.func.get("trait") == FM or (c.callee or "").endswith("::valid_frontier")):
                root = b.raw.get("parent") or b.path
                ok = root in allowed or "edge_rtree" in root
                if not ok and known_functions() and root not in known_functions():
                    # a helper that did not exist when the rules were written: allowed when all its callers are
                    callers = {x.split("::{closure")[0] for x in F.callers_index().get(root, ())}
                    ok = bool(callers) and all(x in allowed or "edge_rtree" in x for x in callers)
                ctx.check(ok, "caller:%s" % root.split("::")[-1] if "::" in root else root, "valid_frontier called from an unexpected place: %s" % root, c.where(), detail=allowed.get(root, "edge map matcher"))


def R5_pair_order(ctx):
    """C04.R5 travel order of the pair handed to the gate"""
    ctx.rule("C04.R5", "the (edge, previous_edge) pair handed to valid_frontier is in travel order in both search directions; joined half-routes re-check the junction turn", floor=2)
    a = getattr(ctx, "a", None) or AStar(ctx.F)
    b, tm = a.body, a.tm
    F = ctx.F
    # Does the role assignment depend on the direction?  Either the call is control-dependent on discr(direction)
    # or the operands come from a Direction helper that receives both edges.
    dirarg = ("arg", 3)
    dep = False
    for bb, dt, names, t in switches(b, tm):
        if deep_strip(dt) == ("discr", dirarg) and bb in b.dom.get(a.vf.bb, ()):
            dep = True
    e, prev = a.arg(a.vf, 1), a.arg(a.vf, 3)
    glt_name = astar.A + "a_star::a_star_algorithm::get_last_traversed_edge_id"
    helper = [c for c in calls_in(prev) + calls_in(e) if c[1].startswith(astar.DIR) and calls_in(c, glt_name) and contains(c, lambda s: nosite(s) == nosite(a.edge_id))]
    has_reverse = "Reverse" in [v["name"] for v in F.adts[astar.A + "direction::Direction"]["variants"]]
    # in a Reverse search the tree's last edge *follows* e in travel order
    ctx.check(dep or bool(helper) or not has_reverse, "run_a_star:reverse-pair-order", "in Direction::Reverse the popped vertex's tree edge follows the candidate edge in travel order, but it is passed as `previous_edge` (the pair does not depend on the direction): turn restrictions are tested as (next -> prev)", a.vf.where())
    # single-via joins a forward and a reverse half: the junction turn must be tested by the frontier model
    sb = F.need(astar.A + "ksp::single_via_paths_algorithm::run")
    reach = F.reachable_from([sb.path])
    calls_gate = False
    for p in reach:
        if p == astar.RUN or p.startswith(astar.A + "search_algorithm") or p.startswith("<"):
            continue
        bb_ = F.bodies[p]
        if p.startswith(astar.A + "ksp::single_via") or p.startswith(astar.A + "a_star::bidirectional_ops"):
            for c in bb_.calls():
                if c.func.get("method") == "valid_frontier":
                    calls_gate = True
    ctx.check(calls_gate, "single_via_paths_algorithm::run:junction-unchecked", "the turn at the via vertex (last forward edge -> first re-oriented reverse edge) is never submitted to the frontier model", sb.where())


def S0(ctx):
    common.S0_order(ctx, "C04.S0", ["routee_compass_core::model::unit::cost::Cost", "routee_compass_core::model::unit::distance::Distance", "routee_compass_core::model::unit::weight::Weight", "routee_compass_core::model::unit::internal_float::InternalFloat"])


def R6_plumbing(ctx):
    """C04.R6 the restriction data the predicates are evaluated on is the configured / requested data"""
    F = ctx.F
    ctx.rule("C04.R6", "vehicle_restriction_lookup_from_file appends every row of the table to the list of its own edge (no row replaces another); the road-class and vehicle-restriction services hand the value parsed from this query to the model unmodified, together with the shared lookup", floor=3)
    U = lambda t: rewrite(nosite(deep_strip(t)), lambda x: unmut(x) if x[0] == "mut" else None)
    b = F.need(CFG + "vehicle_restrictions::vehicle_restriction_builder::vehicle_restriction_lookup_from_file")
    loops = b.natural_loops()
    ok = len(loops) == 1
    why = "expected one loop over the rows"
    if ok:
        h = loops[0][0]
        rows = iteration_table(b, h)
        backs = [r for r in rows if r.kind == "back"]
        ok = bool(backs)
        for r in backs:
            nxs = [U(v) for _, k, v in r.sites if k and itm(k, "next")]
            trs = [U(v) for _, k, v in r.sites if (k or "").endswith("RestrictionRow::to_restriction")]
            pushes = [U(v) for _, k, v in r.sites if (k or "").startswith("std::vec::Vec::<T, A>::push")]
            if len(nxs) != 1 or len(trs) != 1 or len(pushes) != 1:
                ok, why = False, "a turn does not convert one row and push one restriction (next %d, to_restriction %d, push %d): a table collected into a map keeps only one row per edge" % (len(nxs), len(trs), len(pushes))
                continue
            row = nxs[0]
            recv, val = pushes[0][2]
            ent = [x for x in subterms(recv) if x[0] == "call" and x[1].startswith("std::collections::HashMap::<K, V, S, A>::entry")]
            grow = recv[0] == "call" and re.search(r"Entry::<'a, K, V>::(or_default|or_insert_with|or_insert)$", recv[1]) is not None and len(ent) == 1 and ent[0][2][1] == ("field", row, "edge_id")
            ok = ok and grow and val == trs[0] and trs[0][2][0] == row and contains(row, lambda q: q[0] == "call" and q[1].endswith("read_utils::from_csv"))
            if not (grow and val == trs[0]):
                why = "the converted restriction is not pushed onto map.entry(row.edge_id).or_default(): %s" % short(recv)[:120]
        rets = [r for r in rows if r.kind == "return" and result_variant(U(r.ret)) == "Ok"]
        ok = ok and bool(rets)
    ctx.check(ok, "restriction-table:every-row-appended", why, b.where(), detail="for row in rows: map.entry(row.edge_id).or_default().push(row.to_restriction()?)")
    # the restricted-turn table: the file's records, read by header name into RestrictedEdgePair, all of them, unmodified
    tbs = [bb_ for p_, bb_ in F.bodies.items() if p_.startswith("<" + CFG + "turn_restrictions::turn_restriction_builder::TurnRestrictionBuilder as ") and p_.endswith("::build")]
    if not tbs:
        raise AnchorMissing("TurnRestrictionBuilder::build")
    tb_ = tbs[0]
    PAIR = CFG + "turn_restrictions::turn_restriction_service::RestrictedEdgePair"
    fcs = [c for c in tb_.calls() if (c.callee or "").endswith("read_utils::from_csv")]
    okt = len(fcs) == 1 and (fcs[0].func.get("targs") or [None])[0] == PAIR
    ctx.check(okt, "turn-table:records-read-by-header-name", "the restricted-turn file is not deserialised into RestrictedEdgePair (named fields prev_edge_id / next_edge_id, matched by header): read as %s, a positional type takes whatever the first columns are" % ((fcs[0].func.get("targs") or ["?"])[0].split("::")[-1][:60] if fcs else "nothing"), tb_.where(), detail="from_csv::<RestrictedEdgePair>(file, has_headers = true)")
    if okt:
        want_src = clean(Terms(tb_).call_term(fcs[0].term, fcs[0].bb))
        hdr = clean(Terms(tb_).operand(fcs[0].args[1], fcs[0].bb)) == ("const", "bool", True)
        oks_ = hdr
        for r in table(tb_, max_paths=20000):
            if r.end == "return" and result_variant(r.ret) == "Ok":
                svc_ = strip_maps(agg_payload(clean(r.ret))) if "strip_maps" in globals() else agg_payload(clean(r.ret))
                while svc_[0] == "call" and len(svc_[2]) == 1:
                    svc_ = svc_[2][0]
                fld_ = dict(svc_[3]).get("restricted_edge_pairs") if svc_[0] == "agg" else None
                base_, steps_ = chain_steps(F, fld_) if fld_ is not None else (None, [])
                oks_ = oks_ and fld_ is not None and clean(base_) == want_src and not [n for n, _ in steps_ if n not in ("iter", "into_iter", "cloned", "copied", "collect", "into_vec", "to_vec")]
        ctx.check(oks_, "turn-table:every-record-unmodified", "the service's restricted_edge_pairs is not the set of all records of the file as read (headers on, no mapping/filtering in between)", tb_.where(), detail="records.iter().cloned().collect()")
    # services
    FMS = "routee_compass_core::model::frontier::frontier_model_service::FrontierModelService"
    for svc, model, field, src in (
        (CFG + "road_class::road_class_service::RoadClassFrontierService", CFG + "road_class::road_class_model::RoadClassFrontierModel", "road_classes", ("call", CFG + "road_class::road_class_parser::RoadClassParser::read_query", (("field", ("arg", 1), "road_class_parser"), ("arg", 2)))),
        (CFG + "vehicle_restrictions::vehicle_restriction_service::VehicleRestrictionFrontierService", CFG + "vehicle_restrictions::vehicle_restriction_model::VehicleRestrictionFrontierModel", "vehicle_parameters", ("call", CFG + "vehicle_restrictions::vehicle_parameters::VehicleParameters::from_query", (("arg", 2),))),
    ):
        sb = F.need("<%s as %s>::build" % (svc, FMS))
        oks = [r for r in table(sb, max_paths=100000) if r.end == "return" and result_variant(r.ret) == "Ok"]
        good = bool(oks)
        det = ""
        for r in oks:
            aggs = [x for x in subterms(U(r.ret)) if x[0] == "agg" and x[1] == model]
            if len(aggs) != 1:
                good = False
                continue
            fl = dict(aggs[0][3])
            v = fl.get(field)
            # error adaptors do not change the Ok payload
            v = rewrite(v, lambda x: x[2][0] if x[0] == "call" and re.search(r"Result::<T, E>::map_err$", x[1]) else None) if v is not None else None
            good = good and v == src and fl.get("service") == ("arg", 1)
            det = short(v)[:120] if v is not None else "missing"
        inst = svc.split("::")[-1]
        ctx.check(good, "%s:%s-from-this-query-unmodified" % (inst, field), "the model's %s is not exactly what was parsed from this query (filtered, defaulted or replaced?): %s" % (field, det), sb.where(), detail="%s = %s" % (field, short(src)[:80]))


def R7_cut_instance(ctx):
    """C04.R7 edges cut by an alternative-route search: the search really runs on the cut instance"""
    from props.C13 import spur_instance_rule
    spur_instance_rule(ctx, "C04.R7")


def R8_edge_oriented_ends(ctx):
    """C04.R8 the two edges an edge-oriented query is wrapped in are part of the route: they and the turns onto / off them must be
    submitted to the frontier model like every other edge.  The wrappers run a vertex-oriented sub-search from dst(origin edge)
    to src(destination edge); run_a_star asks the frontier model about (candidate edge, tree edge of the popped vertex), and for
    the sub-search's root that tree edge is None — so unless the wrapper itself submits them, (origin edge -> first edge),
    (last edge -> destination edge) and the destination edge are never tested."""
    F = ctx.F
    ctx.rule("C04.R8", "edge-oriented wrappers (run_a_star_edge_oriented, SearchAlgorithm::run_edge_oriented): somewhere below the wrapper FrontierModel::valid_frontier is asked (a) with the origin edge as `previous_edge` — the turn from the origin edge onto the first edge of the sub-search — and (b) with the destination edge as `edge`", floor=4)
    import astar
    for wpath, short_ in ((astar.A + "a_star::a_star_algorithm::run_a_star_edge_oriented", "run_a_star_edge_oriented"), (astar.A + "search_algorithm::SearchAlgorithm::run_edge_oriented", "run_edge_oriented")):
        b = F.need(wpath)
        tm = Terms(b)
        tys = [b.locals[i]["ty"] for i in range(1, b.argc + 1)]
        src_i = next((i + 1 for i, t in enumerate(tys) if re.search(r"(^|::)EdgeId$", t)), None)
        dst_i = next((i + 1 for i, t in enumerate(tys) if re.search(r"Option<.*EdgeId>$", t)), None)
        if src_i is None or dst_i is None:
            raise AnchorMissing("%s: (EdgeId, Option<EdgeId>) parameters" % short_)
        vfs = [c for c in b.calls_deep() if c.func.get("method") == "valid_frontier" or (c.callee or "").endswith("::valid_frontier")]
        def arg_term(c, i):
            return clean(c.arg_terms[i]) if isinstance(c, VirtualCallSite) else clean(tm.operand(c.args[i], c.bb))
        from_src = lambda t: contains(t, lambda x: x == ("arg", src_i))
        from_dst = lambda t: contains(t, lambda x: x == ("arg", dst_i))
        ok_o = any(len(c.args) >= 4 and from_src(arg_term(c, 3)) for c in vfs)
        ok_d = any(len(c.args) >= 2 and from_dst(arg_term(c, 1)) for c in vfs)
        ctx.check(ok_o, "%s:origin-turn-ungated" % short_, "%s never submits (first edge of the sub-search, previous = origin edge) to the frontier model: the sub-search's root has no tree edge, so a restricted turn (origin edge -> e) is used (%d valid_frontier calls below the wrapper)" % (short_, len(vfs)), b.where())
        ctx.check(ok_d, "%s:destination-edge-ungated" % short_, "%s appends the destination edge without asking the frontier model about it (edge = destination edge, previous = last edge of the sub-search): a forbidden destination edge or a restricted turn onto it is used" % short_, b.where())


RULES = [R1_gate, R1b_strict_relaxation, R2_conjunction, R3_predicates, R3b_parser, R4_who_may_call, R5_pair_order, S0, R6_plumbing, R7_cut_instance, R8_edge_oriented_ends]
