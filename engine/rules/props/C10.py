"""C10 — search limits bound the work and never alter an answer, only stop it."""
from core import *
import astar
from astar import AStar

EXPLANATION = (
    "C10: structural clauses of 'limits only stop, never alter': the limit test dominates every queue pop in every loop turn "
    "and its Err is propagated; it receives the real counters (start time taken before the loop, tree size, an iteration counter "
    "incremented once per expansion and returned); the predicate table of terminate_search per variant; the error mapping to an "
    "explicit termination error; k-shortest-path sub-searches inherit the same termination model; the builder maps type strings to variants. "
    "Not decided: wall-clock behaviour, monotonicity as an execution fact."
)

TM = "routee_compass_core::model::termination::termination_model::TerminationModel"


def R1_test_first(ctx):
    """C10.R1 every loop turn passes the limit test before the pop"""
    ctx.rule("C10.R1", "in run_a_star every cycle through the queue pop contains TerminationModel::test, which dominates the pop, and its Err is propagated", floor=4)
    a = AStar(ctx.F)
    b = a.body
    ctx.check(b.dominates(a.test.bb, a.pop.bb), "test-dominates-pop", "the limit test does not dominate the queue pop", a.test.where())
    ctx.check(a.test.bb in a.loop_blocks, "test-inside-loop", "the limit test is outside the search loop (hoisted)", a.test.where())
    cyc = a.pop.bb in b.reach_from_succs(a.pop.bb, removed_blocks=[a.test.bb])
    ctx.check(not cyc, "every-turn", "there is a cycle through the pop that avoids the limit test (test not run on every turn)", a.test.where())
    # not conditional inside the turn: no path from loop header to pop avoiding the test
    hdr = a.outer[0]
    avoid = a.pop.bb in b.reachable(start=hdr, removed_blocks=[a.test.bb]) if hdr != a.test.bb else False
    ctx.check(not avoid, "unconditional", "a path from the loop head reaches the pop without the limit test", a.test.where())
    pr = try_propagation(b, a.test, a.tm)
    ctx.check(pr["kind"] == "propagated", "err-propagated", "the Err of the limit test is not propagated to the caller: %s" % pr["detail"], a.test.where(), detail=pr["detail"])
    ctx.a = a


def R2_counters(ctx):
    """C10.R2 the test receives the real counters"""
    ctx.rule("C10.R2", "arguments of the limit test: Instant::now() taken before the loop, len() of the tree map, iteration counter (0 before the loop, +1 per expansion, returned)", floor=7)
    a = getattr(ctx, "a", None) or AStar(ctx.F)
    b, tm = a.body, a.tm
    # receiver
    recv = a.arg(a.test, 0)
    ctx.check(recv == ("field", ("arg", 5), "termination_model"), "receiver", "limit test is not called on si.termination_model: %s" % short(recv), a.test.where(), detail=short(recv))
    # start time
    st = a.arg(a.test, 1)
    ok = st[0] == "call" and st[1] == "std::time::Instant::now" and st[3] not in a.loop_blocks
    ctx.check(ok, "start-time", "start_time is not an Instant::now() taken once before the loop: %s" % short(st), a.test.where(), detail=short(st))
    # solution size
    sz = a.arg(a.test, 2)
    tree_map = a.arg(a.ins_tree, 0)
    ok = sz[0] == "call" and sz[1].startswith("std::collections::HashMap::<K, V, S, A>::len") and sz[2][0] == tree_map
    ctx.check(ok, "solution-size", "solution_size is not len() of the tree map: %s" % short(sz), a.test.where(), detail=short(sz))
    # iterations: operand must be a plain local with defs {const 0 outside loop, +1 inside loop}
    op = a.test.args[3]
    ok_it = False
    detail = ""
    def counter_shape(l_):
        init_, incs_, other_ = [], [], []
        for (bb_, pos_, proj_) in b.defs.get(l_, []):
            if pos_ == "term" or proj_:
                other_.append((bb_, pos_)); continue
            rv_ = b.blocks[bb_]["stmts"][pos_]["rv"]
            if tm.rvalue(rv_, bb_, pos_) == ("const", "u64", 0) and bb_ not in a.loop_blocks:
                init_.append(bb_)
            elif increment_of(b, bb_, pos_, l_) == 1 and bb_ in a.loop_blocks:
                incs_.append(bb_)
            else:
                other_.append((bb_, pos_))
        return len(init_) == 1 and len(incs_) >= 1 and not other_
    direct = op["k"] in ("copy", "move") and not op["place"]["p"]
    if direct:
        l0 = op["place"]["l"]
        d0 = b.defs.get(l0, [])
        if len(d0) == 1 and d0[0][1] != "term":
            s0 = b.blocks[d0[0][0]]["stmts"][d0[0][1]]
            if s0["rv"]["k"] == "use" and s0["rv"]["op"]["k"] in ("copy", "move") and not s0["rv"]["op"]["place"]["p"]:
                l0 = s0["rv"]["op"]["place"]["l"]
        direct = counter_shape(l0)
    if not direct:
        # the counter may travel to the test inside a value that bundles the progress figures (a struct built per turn, a
        # tuple): find the counter local whose value at the test *is* the argument, in the term domain
        want_t = a.arg(a.test, 3)
        for l_ in sorted(b.defs):
            if b.locals[l_]["ty"] == "u64" and counter_shape(l_) and clean(tm.local(l_, a.test.bb, len(b.blocks[a.test.bb]["stmts"]))) == clean(want_t):
                op = {"k": "copy", "place": {"l": l_, "p": []}}
                break
    if op["k"] in ("copy", "move") and not op["place"]["p"]:
        l = op["place"]["l"]
        # follow one copy `tmp = iterations`
        defs = b.defs.get(l, [])
        if len(defs) == 1 and defs[0][1] != "term":
            s = b.blocks[defs[0][0]]["stmts"][defs[0][1]]
            if s["rv"]["k"] == "use" and s["rv"]["op"]["k"] in ("copy", "move") and not s["rv"]["op"]["place"]["p"]:
                l = s["rv"]["op"]["place"]["l"]
                defs = b.defs.get(l, [])
        init, incs, other = [], [], []
        for (bb, pos, proj) in defs:
            if pos == "term" or proj:
                other.append((bb, pos))
                continue
            rv = b.blocks[bb]["stmts"][pos]["rv"]
            t = tm.rvalue(rv, bb, pos)
            inc = increment_of(b, bb, pos, l)
            if t == ("const", "u64", 0) and bb not in a.loop_blocks:
                init.append(bb)
            elif inc == 1 and bb in a.loop_blocks:
                incs.append(bb)
            else:
                other.append((bb, short(t)))
        detail = "init@%s inc@%s other=%s" % (init, incs, other)
        ok_it = len(init) == 1 and len(incs) >= 1 and not other
        ctx.check(ok_it, "iterations-counter", "iterations is not a counter initialised to 0 before the loop and incremented by exactly 1 inside it: %s" % detail, a.test.where(), detail=detail)
        if ok_it:
            # one increment on every cycle through the pop, and not inside the inner loop
            for ib in incs:
                cyc = a.pop.bb in b.reach_from_succs(a.pop.bb, removed_blocks=incs)
                ctx.check(not cyc, "iterations-every-expansion", "a loop turn can return to the pop without incrementing the iteration counter", b.where(ib))
                nested = a.inner is not None and ib in a.inner[1]
                ctx.check(not nested, "iterations-once-per-turn", "the iteration counter is incremented inside the per-edge loop", b.where(ib))
                break
            res_it = a.tm.operand(a.result_new.args[1], a.result_new.bb)
            okr = contains(res_it, lambda s: s == ("const", "u64", 0)) or res_it == ("loop", l)
            ctx.check(okr, "iterations-returned", "SearchResult::new does not receive the iteration counter: %s" % short(res_it), a.result_new.where(), detail=short(res_it))
    else:
        ctx.bad("iterations-counter", "iterations argument is not a counter local", a.test.where())


def _combined_loop_form(ctx, b):
    """Combined written as a loop: let mut any = false; for m in models { let r = m.terminate_search(start, size, iter)?; any = any || r }
    Ok(any) — decided on the loop's transfer function as a truth table over (any, r)"""
    U = lambda t: rewrite(nosite(deep_strip(t)), lambda x: unmut(x) if x[0] == "mut" else None)
    h = min(x for x, _ in b.natural_loops())
    rows = iteration_table(b, h)
    backs = [r for r in rows if r.kind == "back"]
    models = ("field", ("variant", ("arg", 1), "Combined"), "models")
    ok = bool(backs)
    flag = None
    truth = {}
    why = ""
    for r in backs:
        calls = [U(v) for _, k, v in r.sites if k == TM + "::terminate_search"]
        nxs = [U(v) for _, k, v in r.sites if k and itm(k, "next")]
        if len(calls) != 1 or len(nxs) != 1:
            ok, why = False, "a turn does not ask exactly one inner model"
            continue
        call, elem = calls[0], nxs[0]
        if not (call[2] == (elem, ("arg", 2), ("arg", 3), ("arg", 4)) and contains(elem, lambda q: q[0] == "call" and q[1].endswith("::iter") and q[2] == (models,)) and not [c for c in calls_in(elem) if re.search(r"Iterator>?::(skip|take|step_by|filter)$", c[1])]):
            ok, why = False, "the inner model is not an element of self.models asked about the same (start_time, solution_size, iteration)"
            continue
        # the carried boolean: a bool local read from the previous turn (it occurs as carried(l) in a condition or in a new value)
        cands = []
        for l in range(len(b.locals)):
            if b.locals[l].get("ty") != "bool":
                continue
            used = any(contains(U(d), lambda q, l=l: q == ("carried", l)) for d, _, _ in r.conds) or any(contains(U(v), lambda q, l=l: q == ("carried", l)) for v in r.env.values())
            if used and l in r.env:
                cands.append(l)
        for l in cands:
            nv = U(r.new(l))
            if nv not in (("const", "bool", True), ("const", "bool", False), ("carried", l), call) and not (nv[0] == "bin" and nv[1] == "BitOr"):
                continue
            flag = l if flag is None else flag
            if l != flag:
                continue
            # assumptions of this row on (flag, call)
            fa = [cond_truth(lab) for d, lab, _ in r.conds if U(d) == ("carried", l)]
            ra = [cond_truth(lab) for d, lab, _ in r.conds if U(d) == call]
            for fv in ([fa[0]] if fa else [False, True]):
                for rv in ([ra[0]] if ra else [False, True]):
                    if nv[0] == "const":
                        out = nv[2]
                    elif nv == ("carried", l):
                        out = fv
                    elif nv == call:
                        out = rv
                    else:
                        out = fv or rv if {U(nv[2]), U(nv[3])} == {("carried", l), call} else None
                    truth.setdefault((fv, rv), set()).add(out)
    good = ok and flag is not None and all(truth.get((fv, rv)) == {fv or rv} for fv in (False, True) for rv in (False, True))
    if ok and not good:
        why = "the accumulated flag is not `any || verdict` (truth table %s)" % {k: sorted(map(str, v)) for k, v in truth.items()}
    ctx.check(good, "Combined:any-inner-model", "Combined is not `any inner model terminates`: %s" % why, b.where(h), detail="any = any || m.terminate_search(start, size, iteration)? for every m in models")
    if flag is not None:
        e = U(loop_entry_value(b, h, flag))
        ctx.check(e == ("const", "bool", False), "Combined:seed-false", "the accumulated flag does not start as false: %s" % short(e), b.where(h), detail="any = false")
        rets = [r for r in rows if r.kind == "return" and result_variant(U(r.ret)) == "Ok"]
        ctx.check(bool(rets) and all(agg_payload(U(r.ret)) == ("carried", flag) for r in rets), "Combined:returns-flag", "after all inner models the function does not return the accumulated flag", b.where(h), detail="Ok(any)")
    errs = [r for r in rows if r.kind == "return" and result_variant(U(r.ret)) != "Ok"]
    ctx.check(all(is_err_value(r.ret) or result_variant(U(r.ret)) == "Err" for r in errs), "Combined:errors-propagate", "an inner model's Err is not propagated", b.where(h))


def R3_predicates(ctx):
    """C10.R3 predicate table of terminate_search / test"""
    F = ctx.F
    ctx.rule("C10.R3", "terminate_search per variant: Iterations: iteration+1 > limit; SolutionSize: size > limit; Runtime: every `frequency` turns, elapsed > limit; Combined: any inner model; test(): true => Err(QueryTerminated(explanation))", floor=9)
    b = F.need(TM + "::terminate_search")
    rows = [r for r in table(b) if r.end == "return"]
    self_ = ("arg", 1)
    seen = set()
    for r in rows:
        v = r.sel.get(self_)
        if v is None or isinstance(v, tuple):
            ctx.bad("table-shape", "terminate_search is not a match over self's variants", b.where())
            continue
        seen.add(v)
        val = agg_payload(r.ret) if result_variant(r.ret) == "Ok" else None
        fld = lambda name: ("field", ("variant", self_, v), name)
        if v == "IterationsLimit":
            c = as_cmp(val) if val else None
            ok = False
            if c:
                c = canon_cmp(c)
                ar = Arith(F)
                d = ar.ev(c[2]) - ar.ev(("arg", 4))
                ok = c[0] == "Lt" and c[1] == fld("limit") and d.p.is_const() and d.q.is_const() and d.p.const_value() == d.q.const_value()
            ctx.check(ok, "IterationsLimit", "predicate is not `iteration + 1 > limit`: %s" % short(r.ret), b.where(), detail=short(val))
        elif v == "SolutionSizeLimit":
            c = as_cmp(val) if val else None
            ok = bool(c) and canon_cmp(c) == ("Lt", fld("limit"), ("arg", 3))
            ctx.check(ok, "SolutionSizeLimit", "predicate is not `solution_size > limit`: %s" % short(r.ret), b.where(), detail=short(val))
        elif v == "QueryRuntimeLimit":
            # scheduled check: on the path where iteration % frequency == 0 the elapsed time is compared
            sched = [f for f in r.facts if f[0] in ("Eq", "Ne") and ("const", "u64", 0) in (f[1], f[2])]
            rem_ok = False
            for f in sched:
                other = f[2] if f[1] == ("const", "u64", 0) else f[1]
                if other[0] == "call" and other[1].endswith("::rem") and other[2] == (("arg", 4), fld("frequency")):
                    rem_ok = True
                if other[0] == "bin" and other[1] == "Rem" and other[2] == ("arg", 4) and other[3] == fld("frequency"):
                    rem_ok = True
            on_schedule = any(f[0] == "Eq" for f in sched)
            if not rem_ok:
                ctx.bad("QueryRuntimeLimit:schedule", "runtime check is not scheduled by `iteration %% frequency == 0`: facts %s" % [short(("bin",) + f) for f in r.facts], b.where())
            elif on_schedule:
                c = as_cmp(val) if val else None
                ok = False
                if c:
                    c = canon_cmp(c)
                    el = c[2]
                    ok = c[0] == "Lt" and c[1] == fld("limit") and el[0] == "call" and el[1] == "std::time::Instant::duration_since" and el[2][0][0] == "call" and el[2][0][1] == "std::time::Instant::now" and el[2][1] == ("arg", 2)
                ctx.check(ok, "QueryRuntimeLimit:due", "on a scheduled turn the predicate is not `now - start_time > limit`: %s" % short(r.ret), b.where(), detail=short(val))
            else:
                ctx.check(val == ("const", "bool", False), "QueryRuntimeLimit:not-due", "between scheduled checks the predicate is not `false`: %s" % short(r.ret), b.where(), detail=short(val))
        elif v == "Combined" and b.natural_loops():
            continue  # loop spelling: decided once below (Combined:any-inner-model)
        elif v == "Combined":
            t = r.ret
            ok = t[0] == "call" and itm(t[1], "try_fold") and t[2][1] == ("const", "bool", False) and t[2][0][0] == "call" and t[2][0][2] == (fld("models"),) and t[2][2][0] == "closure"
            ctx.check(ok, "Combined:fold", "Combined is not a fold over all inner models seeded with false: %s" % short(t), b.where(), detail=short(t))
            if ok:
                cl = F.need(t[2][2][1])
                caps = t[2][2][2]
                # closure(acc, m): m.terminate_search(start,size,iter).map(|r| acc || r)
                crow = [x for x in table(cl) if x.end == "return"]
                okc = False
                if len(crow) == 1:
                    ct = nosite(deep_strip(path_return_term(cl, crow[0].path)))  # the adaptor chain itself, not its normal form
                    if ct[0] == "call" and ct[1].endswith("Result::<T, E>::map") and ct[2][0][0] == "call" and ct[2][0][1] == TM + "::terminate_search":
                        inner_args = ct[2][0][2]
                        # captured (start, size, iteration) in order; receiver = the element
                        capmap = {("field", ("arg", 1), str(i)): caps[i] for i in range(len(caps))}
                        sub = [capmap.get(x, x) for x in inner_args]
                        okc = sub[0] == ("arg", 3) and sub[1:] == [("arg", 2), ("arg", 3), ("arg", 4)] and ct[2][1][0] == "closure"
                        if okc:
                            cl2 = F.need(ct[2][1][1])
                            rows2 = [x for x in table(cl2) if x.end == "return"]
                            # acc || r : returns true when acc, else r  (or BitOr)
                            acc = ct[2][1][2][0] if ct[2][1][2] else None
                            okc = acc == ("arg", 2)
                            vals = {}
                            for x in rows2:
                                for bt, lab in x.bools:
                                    vals[(short(bt), cond_truth(lab))] = x.ret
                            if len(rows2) == 2:
                                okc = okc and set(map(repr, vals.values())) == {repr(("const", "bool", True)), repr(("arg", 2))} and vals.get(("arg1.0", True)) == ("const", "bool", True)
                            elif len(rows2) == 1:
                                rr = rows2[0].ret
                                okc = okc and rr[0] == "bin" and rr[1] == "BitOr" and {rr[2], rr[3]} == {("field", ("arg", 1), "0"), ("arg", 2)}
                            else:
                                okc = False
                ctx.check(okc, "Combined:disjunction", "the fold step is not `acc || inner.terminate_search(start, size, iteration)`", cl.where())
        else:
            ctx.bad("variant:%s" % v, "unknown TerminationModel variant — extend the predicate table", b.where())
    if b.natural_loops():
        _combined_loop_form(ctx, b)
        seen.add("Combined")
    for v in ("IterationsLimit", "SolutionSizeLimit", "QueryRuntimeLimit", "Combined"):
        if v not in seen:
            ctx.bad("variant-missing:%s" % v, "no return path for variant %s" % v, b.where())
    # test(): should_terminate => Err(QueryTerminated(explanation)) ; else Ok(())
    tb = F.need(TM + "::test")
    rows = [r for r in table(tb) if r.end == "return"]
    st = ("call", TM + "::terminate_search", (("arg", 1), ("arg", 2), ("arg", 3), ("arg", 4)))
    n_err = n_ok = 0
    for r in rows:
        truth = None
        for bt, lab in r.bools:
            if bt == st:
                truth = cond_truth(lab)
        if truth is True:
            n_err += 1
            ok = result_variant(r.ret) == "Err"
            if not ok and is_err_value(r.ret) and calls_in(r.ret, TM + "::explain_termination"):
                # `explain_termination(..).ok_or_else(|| RuntimeError(..))?`: the missing explanation leaves as the error of the `?`
                ctx.check(True, "test:true=>Err", "", tb.where())
                ctx.check(True, "test:explanation", "", tb.where(), detail="no explanation => error (ok_or_else .. ?)")
                continue
            ctx.check(ok, "test:true=>Err", "terminate_search == true does not yield Err: %s" % short(r.ret), tb.where())
            if ok:
                pay = agg_payload(r.ret)
                expl = pay[0] == "agg" and pay[2] == "QueryTerminated" and calls_in(pay, TM + "::explain_termination")
                runtime_fallback = pay[0] == "agg" and pay[2] == "RuntimeError"
                if not expl and pay[0] == "call" and re.search(r"Option::<T>::(map_or_else|map_or)$", pay[1].split("{")[0]) and len(pay[2]) == 3:
                    # explain_termination(..).map_or_else(|| RuntimeError(..), QueryTerminated): the same two cases as a combinator
                    recv_, dflt_, mapper_ = pay[2]
                    mp_ok = "QueryTerminated" in repr(mapper_) or (mapper_[0] == "closure" and mapper_[1] in F.bodies and "QueryTerminated" in repr(clean(Terms(F.bodies[mapper_[1]]).return_term())))
                    df_ok = "RuntimeError" in repr(dflt_) or (dflt_[0] == "closure" and dflt_[1] in F.bodies and "RuntimeError" in repr(clean(Terms(F.bodies[dflt_[1]]).return_term())))
                    expl = bool(calls_in(recv_, TM + "::explain_termination")) and mp_ok and df_ok
                ctx.check(bool(expl) or runtime_fallback, "test:explanation", "the error does not carry explain_termination(): %s" % short(pay), tb.where())
        elif truth is False:
            n_ok += 1
            ctx.check(result_variant(r.ret) == "Ok", "test:false=>Ok", "terminate_search == false does not yield Ok(()): %s" % short(r.ret), tb.where())
        else:
            # the `?` on terminate_search itself
            ctx.check(is_err_value(r.ret), "test:inner-error", "path without a decision returns a non-error: %s" % short(r.ret), tb.where())
    ctx.check(n_err >= 1 and n_ok >= 1, "test:both-outcomes", "test() lacks a terminating or a continuing path (err=%d ok=%d)" % (n_err, n_ok), tb.where())
    # explain_termination names the limit kind per variant
    eb = F.need(TM + "::explain_termination")
    texts = {"QueryRuntimeLimit": "runtime", "SolutionSizeLimit": "solution size", "IterationsLimit": "iteration"}
    for r in [x for x in table(eb) if x.end == "return"]:
        v = r.sel.get(("arg", 1))
        if v in texts and result_variant(r.ret) == "Some":
            lits = [s[2] for s in subterms(r.ret) if s[0] == "const" and isinstance(s[2], str)]
            ok = any(texts[v] in l for l in lits)
            ctx.check(ok, "explain:%s" % v, "explanation text does not name the limit kind (%s): %s" % (texts[v], lits[:2]), eb.where(), detail=texts[v])


def R4_never_an_answer(ctx):
    """C10.R4 a stop is never mistaken for an answer"""
    F = ctx.F
    ctx.rule("C10.R4", "termination error -> SearchError::TerminationModelFailure (From impl); KSP sub-searches inherit si.termination_model", floor=3)
    # From<TerminationModelError> for SearchError
    cands = [p for p in F.bodies if p.startswith("<routee_compass_core::algorithm::search::search_error::SearchError as std::convert::From<routee_compass_core::model::termination::termination_model_error::TerminationModelError>>::from")]
    if not cands:
        raise AnchorMissing("From<TerminationModelError> for SearchError")
    fb = F.bodies[cands[0]]
    rt = nosite(deep_strip(Terms(fb).return_term()))
    ok = rt[0] == "agg" and rt[2] == "TerminationModelFailure" and rt[3][0][1] == ("arg", 1)
    ctx.check(ok, "error-mapping", "TerminationModelError is not mapped to SearchError::TerminationModelFailure(source): %s" % short(rt), fb.where(), detail=short(rt))
    # Yen's: every SearchInstance aggregate built there carries termination_model: si.termination_model
    yb = F.need(astar.A + "ksp::yens_algorithm::run")
    tm = Terms(yb)
    n = 0
    for bb, blk in enumerate(yb.blocks):
        for pos, s in enumerate(blk["stmts"]):
            if s["k"] == "assign" and s["rv"]["k"] == "agg" and s["rv"].get("adt", "").endswith("search_instance::SearchInstance"):
                n += 1
                t = deep_strip(tm.rvalue(s["rv"], bb, pos))
                f = dict(t[3])
                si = None
                for a in range(1, yb.argc + 1):
                    if yb.locals[a]["ty"].endswith("SearchInstance"):
                        si = ("arg", a)
                ok = f.get("termination_model") == ("field", si, "termination_model")
                ctx.check(ok, "yens:spur-instance", "spur SearchInstance does not inherit si.termination_model: %s" % short(f.get("termination_model")), yb.where(line=s["line"]), detail=short(f.get("termination_model")))
    ctx.check(n >= 1, "yens:spur-instance-found", "no SearchInstance construction found in yens_algorithm::run", yb.where())
    # single-via passes si unchanged to the underlying searches
    sb = F.need(astar.A + "ksp::single_via_paths_algorithm::run")
    tm = Terms(sb)
    si = None
    for a in range(1, sb.argc + 1):
        if sb.locals[a]["ty"].endswith("SearchInstance"):
            si = ("arg", a)
    calls = [c for c in sb.calls() if c.callee and c.callee.endswith("SearchAlgorithm::run_vertex_oriented")]
    for c in calls:
        ctx.check(deep_strip(tm.operand(c.args[-1], c.bb)) == si, "single-via:instance", "underlying search is not run on the caller's SearchInstance", c.where())
    ctx.check(len(calls) >= 2, "single-via:two-searches", "expected forward and reverse underlying searches, found %d" % len(calls), sb.where())


def R4b_errors_unchanged(ctx):
    """C10.R4b the termination error reaches the caller unchanged through the search stack"""
    F = ctx.F
    ctx.rule("C10.R4b", "every call of a search entry point inside the search stack hands its Err on unchanged (`?`, return, or a map_err that keeps the source error)", floor=8)
    entry = re.compile(r"(a_star_algorithm::run_a_star(_edge_oriented)?|search_algorithm::SearchAlgorithm::run_(vertex|edge)_oriented|search_algorithm::run_edge_oriented|yens_algorithm::run|single_via_paths_algorithm::run)$")
    for b in F.local_bodies():
        if not (b.path.startswith("routee_compass_core::algorithm::search::") or b.path.startswith("routee_compass::app::search::search_app::SearchApp::run")):
            continue
        tm = Terms(b, keep_transparent=False)
        for c in b.calls():
            if not (c.callee and entry.search(c.callee)):
                continue
            inst = "%s->%s" % (b.path.split("::")[-1] if b.kind != "closure" else b.path.split("::")[-2] + "::closure", c.callee.split("::")[-1])
            ef = error_flow(F, b, c, tm)
            ok, detail = ef["ok"], ef["detail"]
            ctx.check(ok, inst, "the Err of %s is not handed on unchanged (%s): a termination error can be swallowed or replaced" % (c.callee.split("::")[-1], detail), c.where(), detail=detail)


def R5_builder(ctx):
    """C10.R5 builder maps type strings to variants"""
    F = ctx.F
    ctx.rule("C10.R5", "TerminationModelBuilder::build maps the four type strings to the four variants and passes the configured limit/frequency/models through unmodified", floor=9)
    bs = [b for p, b in F.bodies.items() if "termination_model_builder::TerminationModelBuilder" in p and b.kind == "assocfn"]
    if not bs:
        raise AnchorMissing("TerminationModelBuilder")
    want = {"query_runtime": "QueryRuntimeLimit", "solution_size": "SolutionSizeLimit", "iterations": "IterationsLimit", "combined": "Combined"}
    found = {}
    fields = {}
    for b in bs:
        tm = Terms(b)
        for p in enumerate_paths(b, max_paths=50000):
            if p.end != "return":
                continue
            lits = []
            for dt, lab, bb in p.conds:
                d = nosite(deep_strip(dt))
                if d[0] == "call" and d[1].endswith("::eq") and cond_truth(lab) and not isinstance(lab, tuple):
                    for s in subterms(d):
                        if s[0] == "const" and isinstance(s[2], str):
                            lits.append(s[2])
            rt = deep_strip(path_return_term(b, p))
            for s in subterms(rt):
                if s[0] == "agg" and s[1] == TM:
                    for l in lits:
                        for k in want:
                            if k in l:
                                found.setdefault(k, set()).add(s[2])
                                fields.setdefault(s[2], []).append(dict(s[3]))
    for k, v in want.items():
        got = found.get(k, set())
        ctx.check(got == {v}, "builder:%s" % k, "type string %r builds %s, expected %s" % (k, sorted(got), v), bs[0].where(), detail=v)
    # the limits are the configured values, unmodified
    keys = {("IterationsLimit", "limit"): "limit", ("SolutionSizeLimit", "limit"): "limit", ("QueryRuntimeLimit", "limit"): "limit", ("QueryRuntimeLimit", "frequency"): "frequency", ("Combined", "models"): "models"}
    for (var, fld), key in keys.items():
        for f in fields.get(var, [])[:1]:
            t = f.get(fld)
            arith = [x for x in subterms(t) if x[0] == "bin" and x[1] not in ("Eq", "Ne", "Lt", "Le", "Gt", "Ge")] + [x for x in subterms(t) if x[0] == "call" and re.search(r"std::ops::(Add|Sub|Mul|Div|Rem)|saturating_|wrapping_|checked_", x[1])]
            lits = [x[2] for x in subterms(t) if x[0] == "const" and isinstance(x[2], str)]
            ok = not arith and any(key in l for l in lits)
            ctx.check(ok, "builder-field:%s.%s" % (var, fld), "the %s of %s is not the configured `%s` value unmodified: %s" % (fld, var, key, short(t)[:200]), bs[0].where(), detail=short(t)[:120])



def R6_duration(ctx):
    """C10.R6 the configured runtime limit is read as h:mm:ss"""
    F = ctx.F
    ctx.rule("C10.R6", "Value::as_duration reads \"h:mm:ss\" as Duration::from_secs(h*3600 + m*60 + s) with h, m, s the captures of those names", floor=1)
    bs = [b for p_, b in F.bodies.items() if p_.endswith("DurationExtension>::as_duration")]
    if len(bs) != 1:
        raise AnchorMissing("DurationExtension::as_duration impl")
    b = bs[0]
    tm = Terms(b)
    fs = [c for c in b.calls() if (c.callee or "").endswith("Duration::from_secs")]
    ok = len(fs) == 1
    got = None
    if ok:
        t = clean(tm.operand(fs[0].args[0], fs[0].bb))
        syms = {}
        for x in subterms(t):
            if x[0] == "at" and x[2][0] == "const" and x[2][2] in ("h", "m", "s"):
                # the parsed capture group
                pass
        def name_of(x):
            if x[0] == "call" and re.search(r"str::.*parse", x[1]) and x[2] and x[2][0][0] == "at" and x[2][0][2][0] == "const" and x[2][0][2][2] in ("h", "m", "s"):
                return x[2][0][2][2]
            return None
        A = Arith(F)
        A.symbols = {x: name_of(x) for x in subterms(t) if name_of(x)}
        try:
            got = A.ev(t)
            want = Ratio(Poly.sym("h")) * Ratio(Poly.const(3600)) + Ratio(Poly.sym("m")) * Ratio(Poly.const(60)) + Ratio(Poly.sym("s"))
            ok = got.equals(want)
        except Exception:
            ok = False
    ctx.check(ok, "as_duration:h*3600+m*60+s", "the duration is %r, expected 3600*h + 60*m + s" % (got,), b.where(), detail="from_secs(h*3600 + m*60 + s)")

RULES = [R1_test_first, R2_counters, R3_predicates, R4_never_an_answer, R4b_errors_unchanged, R5_builder, R6_duration]
