"""C02 — the returned route has least total cost under the query's own objective."""
from fractions import Fraction

from core import *
import astar
import common
from astar import AStar
from props.C04 import relaxation

EXPLANATION = (
    "C02: the mechanisms that make Dijkstra/A* optimal, each a necessary condition visible in the code: strict relaxation on "
    "tentative = g(parent) + total_cost(edge) against g(key) with INFINITY defaults; min-first frontier queue (ReverseCost = Reverse<Cost>, "
    "push_increase) keyed with f = g + weight*estimate; Dijkstra = A* with weight 0, query weight_factor override; the estimate is priced by "
    "the same CostModel object on a copy of the state, from the great-circle distance in the model's own unit at the table's maximum speed; "
    "query-time weights/rates/aggregation reach CostModel::new unmodified. Not decided: optimality itself, admissibility on a concrete network, float ties."
)

M = "routee_compass_core::model::"
COST = M + "unit::cost::Cost"
INF = ("item", COST + "::INFINITY")
ZERO = ("item", COST + "::ZERO")
ONE = ("item", COST + "::ONE")


def R1_relaxation(ctx):
    """C02.R1 relaxation"""
    ctx.rule("C02.R1", "labels are replaced only on tentative < existing, tentative = g(terminal vertex) + edge total cost, existing = g(key vertex), missing g = INFINITY; g and tree are written for the key vertex with the tentative value", floor=7)
    a = AStar(ctx.F)
    F = ctx.F
    rel = relaxation(a)
    if rel is None:
        ctx.bad("relaxation-branch", "no comparison of tentative and existing g-score gates the insertions", a.ins_cost.where())
        return
    bb, f, tr, c = rel
    ctx.check(c[0] == "Lt", "strict", "relaxation comparison is %s, not strictly-less" % c[0], a.body.where(bb), detail=c[0])
    tent, exist = c[1], c[2]
    gmap = nosite(a.arg(a.ins_cost, 0))
    e = nosite(a.e)
    key = ("call", astar.DIR + "tree_key_vertex_id", (("arg", 3), e))
    term = ("call", astar.DIR + "terminal_vertex_id", (("arg", 3), e))
    g = lambda v: ("call", "std::option::Option::<T>::unwrap_or", (("call", "std::collections::HashMap::<K, V, S, A>::get", (gmap, v)), INF))
    pet = nosite(strip_try(deep_strip(a.tm.call_term(a.pet.term, a.pet.bb))))
    tc = ("call", astar.A + "edge_traversal::EdgeTraversal::total_cost", (pet,))
    A_ = Arith(F)
    A_.items_numeric = False
    A_.symbols = {canon_default(g(term)): "gp", tc: "c"}
    got = A_.ev(canon_default(tent))
    ctx.check(got.equals(Ratio(Poly.sym("gp")) + Ratio(Poly.sym("c"))), "tentative", "tentative g-score is %r, expected g(terminal_vertex(e)) [default INFINITY] + total_cost(traversal of e)" % got, a.body.where(bb), detail=repr(got))
    ctx.check(canon_default(exist) == canon_default(g(key)), "existing", "existing g-score is not g(tree_key_vertex(e)) with default INFINITY: %s" % short(exist), a.body.where(bb), detail=short(exist))
    ctx.check(nosite(a.arg(a.ins_cost, 1)) == key and nosite(a.arg(a.ins_cost, 2)) == tent, "g-write", "the g-score written is not (key vertex, tentative)", a.ins_cost.where())
    ctx.check(nosite(a.arg(a.ins_tree, 1)) == key, "tree-write-key", "the tree entry is not keyed by the key vertex", a.ins_tree.where())
    for name, cs in (("tree-insert", a.ins_tree), ("gscore-insert", a.ins_cost), ("requeue", a.requeue)):
        ctx.check(must_pass_edge(a.body, a.next.bb, (bb, tr), cs.bb), "gated:" + name, "%s reachable without tentative < existing" % name, cs.where())
    # the source starts with g = ZERO
    inits = [c2 for c2 in a.body.calls() if c2.callee and c2.callee.startswith("std::collections::HashMap::<K, V, S, A>::insert") and c2.bb not in a.loop_blocks]
    oki = len(inits) == 1 and nosite(a.arg(inits[0], 0)) == gmap and a.arg(inits[0], 1) == ("arg", 1) and a.arg(inits[0], 2) == ZERO
    ctx.check(oki, "source-g-zero", "the search origin is not initialised with g = ZERO in the g-score map", a.body.where())
    ctx.a = a
    ctx.tent = tent
    ctx.key = key


def two_way(F, t):
    """`target.map_or(Ok(ZERO), |t| ..)` / `match target { None => ZERO, Some(t) => .. }` / a local closure doing either: one reading —
    adaptor closures are applied (norm_adaptors) and `default(value, fallback)` is shown as the two alternatives phi{value | fallback}"""
    n = norm_adaptors(F, t)
    def pay(y):
        y = nosite(deep_strip(y))
        # (inside a closure that returns Result the alternatives are Ok(value): the caller's `?` takes the payload)
        return agg_payload(y) if y[0] == "agg" and y[1] == "std::result::Result" and y[2] == "Ok" else y
    return rewrite(n, lambda x: mk_phi([pay(x[1]), pay(x[2])]) if x[0] == "default" and len(x) == 3 else None)


def heuristic_ok(F, h, vertex, a):
    """h == phi{ZERO (no target), Cost::new(estimate(si, vertex, target, _) * weight_factor.unwrap_or(ONE))}"""
    if h[0] != "phi":
        h2 = nosite(deep_strip(two_way(F, h)))
        cands = [x for x in subterms(h2) if x[0] == "phi" and ZERO in x[1]]
        if cands:
            h = cands[0]
    alts = set(h[1]) if h[0] == "phi" else {h}
    if ZERO not in alts or len(alts) != 2:
        return False, "alternatives %s" % [short(x)[:60] for x in alts]
    other = next(iter(alts - {ZERO}))
    ests = calls_in(other, astar.A + "search_instance::SearchInstance::estimate_traversal_cost")
    if len(ests) != 1:
        return False, "no single estimate_traversal_cost call"
    est = ests[0]
    if est[2][0] != ("arg", 5) or est[2][1] != vertex or est[2][2] != ("arg", 2):
        return False, "estimate args %s" % [short(x)[:60] for x in est[2][:3]]
    w = ("call", "std::option::Option::<T>::unwrap_or", (("arg", 4), ONE))
    A_ = Arith(F)
    A_.items_numeric = False
    A_.symbols = {est: "est", w: "w"}
    got = A_.ev(other)
    if not got.equals(Ratio(Poly.sym("est")) * Ratio(Poly.sym("w"))):
        return False, "heuristic is %r, expected estimate * weight_factor" % got
    return True, "estimate(%s, target) * weight_factor.unwrap_or(ONE) | ZERO without target" % short(vertex)[:40]


def R2_queue(ctx):
    """C02.R2 queue order"""
    F = ctx.F
    ctx.rule("C02.R2", "frontier queue priority is ReverseCost (min-first), re-queue is push_increase(key, g + h), h = weight * estimate(key, target) or ZERO; initial push (source, weight * estimate(source, target))", floor=7)
    a = getattr(ctx, "a", None) or AStar(F)
    targs = a.requeue.func.get("targs", [])
    ctx.check(len(targs) >= 2 and targs[1] == COST.replace("::Cost", "::ReverseCost"), "priority-type", "queue priority type is %s, expected ReverseCost" % targs[1:2], a.requeue.where(), detail=str(targs[:2]))
    ctx.check(a.requeue.callee.endswith("::push_increase"), "requeue-op", "re-queue uses %s; with a reversed priority only push_increase lowers the key of a queued vertex" % a.requeue.callee.split("::")[-1], a.requeue.where(), detail="push_increase")
    # From<Cost> for ReverseCost wraps exactly once
    fb = F.need("<%s as std::convert::From<%s>>::from" % (COST.replace("::Cost", "::ReverseCost"), COST))
    rt = nosite(deep_strip(Terms(fb).return_term()))
    okw = rt[0] == "agg" and rt[1].endswith("::ReverseCost") and rt[3][0][1][0] == "agg" and rt[3][0][1][1] == "std::cmp::Reverse" and rt[3][0][1][3][0][1] == ("arg", 1)
    ctx.check(okw, "reverse-once", "ReverseCost::from(cost) is not ReverseCost(Reverse(cost)): %s" % short(rt), fb.where(), detail=short(rt))
    qmap = nosite(a.arg(a.requeue, 0))
    ctx.check(nosite(a.arg(a.init_push, 0)) == qmap and nosite(deep_strip(a.tm.operand(a.pop.args[0], a.pop.bb))) == qmap, "one-queue", "push, re-queue and pop do not operate on the same queue", a.requeue.where())
    key = getattr(ctx, "key", None)
    tent = getattr(ctx, "tent", None)
    if key is None:
        R1_relaxation(ctx)
        ctx.cur = "C02.R2"
        key, tent = ctx.key, ctx.tent
    ctx.check(nosite(a.arg(a.requeue, 1)) == key, "requeue-key", "the re-queued vertex is not the key vertex", a.requeue.where())
    f = nosite(a.arg(a.requeue, 2))
    okf = f[0] == "call" and "::into{" in f[1] and f[1].endswith("ReverseCost}")
    ctx.check(okf, "requeue-priority-conv", "priority is not converted Cost -> ReverseCost: %s" % short(f)[:100], a.requeue.where())
    if okf:
        inner = f[2][0]
        hs = [s for s in subterms(inner) if s[0] == "phi" and ZERO in s[1]]
        if not hs:
            inner2 = nosite(deep_strip(two_way(F, inner)))
            hs = [s for s in subterms(inner2) if s[0] == "phi" and ZERO in s[1]]
            if hs:
                inner = inner2
        A_ = Arith(F)
        A_.items_numeric = False
        A_.symbols = {tent: "g"}
        if len(hs) >= 1:
            A_.symbols[hs[0]] = "h"
        got = A_.ev(inner)
        ctx.check(got.equals(Ratio(Poly.sym("g")) + Ratio(Poly.sym("h"))), "f=g+h", "queue priority is %r, expected tentative g + heuristic" % got, a.requeue.where(), detail=repr(got))
        if hs:
            ok, d = heuristic_ok(F, hs[0], key, a)
            ctx.check(ok, "heuristic", "heuristic term: %s" % d, a.requeue.where(), detail=d)
    ip = nosite(a.arg(a.init_push, 2))
    okp = ip[0] == "call" and "::into{" in ip[1] and a.arg(a.init_push, 1) == ("arg", 1)
    ctx.check(okp, "initial-push", "initial push is not (source, priority)", a.init_push.where())
    if okp:
        ok, d = heuristic_ok(F, ip[2][0], ("arg", 1), a)
        ctx.check(ok, "initial-priority", "initial priority: %s" % d, a.init_push.where(), detail=d)


def _dijkstra_direct_sites(F, b, fn):
    """calls of the search made on the Dijkstra arm itself with the literal weight Some(Cost::ZERO) and this query's own
    endpoints, direction and instance"""
    tm = Terms(b)
    arm = None
    for sbb, dt, names, t in switches(b, tm):
        if names and nosite(deep_strip(dt)) == ("discr", ("arg", 1)) and "Dijkstra" in names.values():
            arm = switch_target(t, names, "Dijkstra")
    if arm is None:
        return []
    run = astar.RUN if fn == "run_vertex_oriented" else astar.A + "a_star::a_star_algorithm::run_a_star_edge_oriented"
    out = []
    for c in b.calls():
        if c.callee == run and b.dominates(arm, c.bb):
            a = [nosite(deep_strip(tm.operand(x, c.bb))) for x in c.args]
            zero_w = ("agg", "std::option::Option", "Some", (("0", ZERO),))
            if a[3] == zero_w and a[0] == ("arg", 2) and a[1] == ("arg", 3) and a[2] == ("arg", 5) and a[4] == ("arg", 6):
                out.append(c)
    return out


def R3_dijkstra(ctx):
    """C02.R3 Dijkstra = weight 0; query override"""
    F = ctx.F
    ctx.rule("C02.R3", "SearchAlgorithm::Dijkstra dispatches to the A* arm with Some(Cost::ZERO) in both orientations and its weight must not depend on the query; the vertex-oriented A* arm takes weight_factor from the query when present, else the configured one", floor=4)
    SA = astar.A + "search_algorithm::SearchAlgorithm"
    for fn in ("run_vertex_oriented", "run_edge_oriented"):
        b = F.need(SA + "::" + fn)
        rows = [r for r in table(b, max_paths=100000) if r.end == "return" and r.sel.get(("arg", 1)) == "Dijkstra"]
        want_self = ("agg", SA, "AStarAlgorithm", (("weight_factor", ("agg", "std::option::Option", "Some", (("0", ZERO),))),))
        ok = len(rows) >= 1 and all(r.ret[0] == "call" and r.ret[1] == SA + "::" + fn and r.ret[2][0] == want_self and r.ret[2][1:] == tuple(("arg", i) for i in range(2, 7)) for r in rows)
        if not ok:
            # the other spelling: the Dijkstra arm runs the search itself with the zero weight
            ok = bool(_dijkstra_direct_sites(F, b, fn))
        ctx.check(ok, "dijkstra:" + fn, "Dijkstra is not A* with weight factor Some(Cost::ZERO) on the same arguments: %s" % [short(r.ret)[:160] for r in rows][:1], b.where(), detail="AStarAlgorithm{weight_factor: Some(ZERO)}")
    rv = F.need(SA + "::run_vertex_oriented")
    tm = Terms(rv)
    direct_ = {c.bb for c in _dijkstra_direct_sites(F, rv, "run_vertex_oriented")}
    ra = [c for c in rv.calls_to(astar.RUN) if c.bb not in direct_]
    if len(ra) != 1:
        raise AnchorMissing("run_a_star call in run_vertex_oriented")
    w = nosite(deep_strip(tm.operand(ra[0].args[3], ra[0].bb)))
    alts = set(w[1]) if w[0] == "phi" else {w}
    conf = ("agg", "std::result::Result", "Ok", (("0", ("field", ("variant", ("arg", 1), "AStarAlgorithm"), "weight_factor")),))
    q = [x for x in alts if calls_in(x, "serde_json::value::Value::get") and any(s == ("const", "&str", "weight_factor") or (s[0] == "const" and s[2] == "weight_factor") for s in subterms(x))]
    ctx.check(conf in alts or ("field", ("variant", ("arg", 1), "AStarAlgorithm"), "weight_factor") in alts, "weight:configured", "without a query override the configured weight factor is not used: %s" % short(w)[:200], ra[0].where(), detail="self.weight_factor")
    ctx.check(len(q) == 1, "weight:query-override", "query[\"weight_factor\"] does not reach run_a_star: %s" % short(w)[:200], ra[0].where(), detail="query.get(\"weight_factor\")")
    if len(q) == 1:
        # Some(Cost::new(value.as_f64()?)) — written with `.map(|f| Some(Cost::new(f)))` or directly
        v_ = norm_adaptors(F, q[0])
        while result_variant(v_) == "Ok":
            v_ = agg_payload(v_)
        as_f = lambda t: t[0] == "call" and t[1].endswith("Value::as_f64") and calls_in(t, "serde_json::value::Value::get")
        okc = v_[0] == "agg" and v_[1] == "std::option::Option" and v_[2] == "Some" and v_[3][0][1][0] == "call" and v_[3][0][1][1] == COST + "::new" and as_f(v_[3][0][1][2][0])
        if not okc:
            cl = [s for s in subterms(q[0]) if s[0] == "closure"]
            if len(cl) == 1:
                crt = nosite(deep_strip(Terms(F.need(cl[0][1])).return_term()))
                okc = crt == ("agg", "std::option::Option", "Some", (("0", ("call", COST + "::new", (("arg", 2),))),))
        ctx.check(okc, "weight:query-value", "the query's weight_factor is not passed as Some(Cost::new(value))", ra[0].where())
    # Dijkstra must search with h = 0 whatever the query says.  It reaches run_a_star only by delegating to the A* arm of this
    # same function (checked above): if that arm lets the query replace the weight, a query carrying "weight_factor" turns a
    # configured Dijkstra into weighted A*, whose route need not be least-cost.
    drows = [r for r in table(rv, max_paths=100000) if r.end == "return" and r.sel.get(("arg", 1)) == "Dijkstra"]
    delegates = bool(drows) and all(r.ret[0] == "call" and r.ret[1] == SA + "::run_vertex_oriented" and r.ret[2][1:] and r.ret[2][3] == ("arg", 4) for r in drows)
    ctx.check(not (delegates and len(q) >= 1), "dijkstra:run_vertex_oriented:query-weight-factor-reaches-the-heuristic", "SearchAlgorithm::Dijkstra delegates to the A* arm with the query unchanged, and that arm replaces the configured weight (ZERO) by query[\"weight_factor\"] when present: a configured Dijkstra search obeys a weight factor sent with the query and can return a route that is not least-cost", rv.where(), detail="Dijkstra => weight ZERO on every path")
    ctx.check([deep_strip(tm.operand(x, ra[0].bb)) for x in ra[0].args[:3]] == [("arg", 2), ("arg", 3), ("arg", 5)] and deep_strip(tm.operand(ra[0].args[4], ra[0].bb)) == ("arg", 6), "search-args", "run_a_star is not called with (source, destination, direction, weight, search instance) of this query", ra[0].where())


def R4_estimate(ctx):
    """C02.R4 admissible estimate plumbing"""
    F = ctx.F
    ctx.rule("C02.R4", "estimate_traversal_cost prices a copy of the state, advanced by TraversalModel::estimate_traversal between the two vertices, with the same CostModel that prices edges; distance/speed models estimate from the great-circle distance in their own unit at the table's maximum speed; get_max_speed keeps the greater; earth radius", floor=12)
    b = F.need(astar.A + "search_instance::SearchInstance::estimate_traversal_cost")
    tm = Terms(b)
    rows = [r for r in table(b) if r.end == "return" and result_variant(r.ret) == "Ok"]
    ctx.check(len(rows) == 1, "estimate:paths", "expected one Ok path, found %d" % len(rows), b.where())
    if rows:
        v = agg_payload(rows[0].ret)
        ok = v[0] == "call" and v[1] == M + "cost::cost_model::CostModel::cost_estimate" and v[2][0] == ("field", ("arg", 1), "cost_model") and v[2][1] == ("arg", 4)
        ctx.check(ok, "estimate:priced-by-cost-model", "estimate is not self.cost_model.cost_estimate(state, ..): %s" % short(v)[:160], b.where(), detail="self.cost_model.cost_estimate(state, dst_state)")
        if ok:
            dst = v[2][2]
            okd = dst[0] == "mut" and unmut(dst) == ("arg", 4) and any(n.endswith("traversal_model::TraversalModel::estimate_traversal") for n in dst[2])
            ctx.check(okd, "estimate:dst-state", "the destination state is not a copy of `state` advanced by estimate_traversal: %s" % short(dst)[:160], b.where(), detail=short(dst)[:100])
    ests = [c for c in b.calls() if c.func.get("method") == "estimate_traversal"]
    ctx.check(len(ests) == 1, "estimate:model-call", "expected one TraversalModel::estimate_traversal call", b.where())
    if ests:
        c = ests[0]
        args = [nosite(deep_strip(tm.operand(x, c.bb))) for x in c.args]
        gv = lambda i: ("call", M + "network::graph::Graph::get_vertex", (("field", ("arg", 1), "directed_graph"), ("arg", i)))
        ok = args[0] == ("field", ("arg", 1), "traversal_model") and args[1] == ("tuple", (gv(2), gv(3))) and args[3] == ("field", ("arg", 1), "state_model")
        ctx.check(ok, "estimate:model-args", "estimate_traversal is not called on self.traversal_model with ((src vertex, dst vertex), copy, self.state_model): %s" % [short(x)[:60] for x in args], c.where())
        ctx.check(try_propagation(b, c, tm)["kind"] == "propagated", "estimate:err", "Err of estimate_traversal not propagated", c.where())
    # the same cost model object prices edges
    ft = F.need(astar.A + "edge_traversal::EdgeTraversal::forward_traversal")
    tcs = [c for c in ft.calls() if c.callee == M + "cost::cost_model::CostModel::traversal_cost"]
    okm = len(tcs) == 1 and deep_strip(Terms(ft).operand(tcs[0].args[0], tcs[0].bb)) == ("field", ("arg", 4), "cost_model")
    ctx.check(okm, "same-cost-model", "edges are not priced by si.cost_model (the object the estimate uses)", ft.where())
    # ---- traversal models' estimate
    for model, unit_field in (("distance_traversal_model::DistanceTraversalModel", ("field", ("arg", 1), "distance_unit")), ("speed_traversal_model::SpeedTraversalModel", ("field", ("field", ("arg", 1), "engine"), "distance_unit"))):
        eb = F.need("<%straversal::default::%s as %straversal::traversal_model::TraversalModel>::estimate_traversal" % (M, model, M))
        etm = Terms(eb)
        cd = eb.calls_to("routee_compass_core::util::geo::haversine::coord_distance")
        name = model.split("::")[-1]
        ctx.check(len(cd) == 1, name + ":haversine", "estimate does not use haversine::coord_distance", eb.where())
        if cd:
            args = [nosite(deep_strip(etm.operand(x, cd[0].bb))) for x in cd[0].args]
            ok = args[0] == ("field", ("field", ("arg", 2), "0"), "coordinate") and args[1] == ("field", ("field", ("arg", 2), "1"), "coordinate") and args[2] == unit_field
            ctx.check(ok, name + ":haversine-args", "great-circle distance is not between (src, dst) in the model's distance unit: %s" % [short(x) for x in args], cd[0].where(), detail=[short(x) for x in args])
    sb = F.need("<%straversal::default::speed_traversal_model::SpeedTraversalModel as %straversal::traversal_model::TraversalModel>::estimate_traversal" % (M, M))
    stm = Terms(sb)
    tcs = [c for c in sb.calls() if c.callee and c.callee.endswith("unit::time::Time::create")]
    ctx.check(len(tcs) == 1, "speed:time-create", "speed model estimate does not build a time with Time::create", sb.where())
    if tcs:
        a0 = nosite(deep_strip(stm.operand(tcs[0].args[0], tcs[0].bb)))
        ctx.check(a0 == ("field", ("field", ("arg", 1), "engine"), "max_speed"), "speed:max-speed", "the estimate is not priced at engine.max_speed (a table lookup or another speed makes it inadmissible): %s" % short(a0), tcs[0].where(), detail=short(a0))
    # ---- get_max_speed
    gm = F.need(M + "traversal::default::speed_traversal_engine::get_max_speed")
    cls = F.closures_of(gm.path)
    folds = [c for c in gm.calls() if c.callee and c.callee.endswith("::fold")]
    okf = len(folds) == 1 and len(cls) >= 1
    ctx.check(okf, "max-speed:fold", "get_max_speed is not a fold over the whole table", gm.where())
    if okf:
        cb = [c for c in cls if len(c.blocks) > 3][0]
        rows = [r for r in table(cb) if r.end == "return"]
        acc, row = ("field", ("arg", 2), "0"), ("arg", 3)
        good = len(rows) == 2
        for r in rows:
            nxt = r.ret[1][0] if r.ret[0] == "tuple" else None
            if ("Lt", row, acc) in r.facts:
                good = good and nxt == acc
            elif ("Le", acc, row) in r.facts:
                good = good and nxt == row
            elif ("Lt", acc, row) in r.facts:
                good = good and nxt == row
            elif ("Le", row, acc) in r.facts:
                good = good and nxt == acc
            else:
                good = False
        ctx.check(good, "max-speed:keeps-greater", "the fold step does not keep the greater of (accumulator, row): %s" % [(sorted(short(("bin",) + f) for f in r.facts), short(r.ret)) for r in rows], cb.where(), detail="if acc > row {acc} else {row}")
        init = nosite(deep_strip(Terms(gm).operand(folds[0].args[1], folds[0].bb)))
        ctx.check(init[0] == "tuple" and init[1][0] == ("item", M + "unit::speed::Speed::ZERO"), "max-speed:seed", "fold is not seeded with Speed::ZERO: %s" % short(init), gm.where())
        recv = nosite(deep_strip(Terms(gm).operand(folds[0].args[0], folds[0].bb)))
        ctx.check(recv == ("call", "std::slice::<impl [T]>::iter", (("arg", 1),)), "max-speed:whole-table", "fold does not range over the whole table: %s" % short(recv), gm.where())
    eng = F.need(M + "traversal::default::speed_traversal_engine::SpeedTraversalEngine::new")
    aggs = [s for s in subterms(nosite(deep_strip(Terms(eng).return_term()))) if s[0] == "agg" and s[1].endswith("SpeedTraversalEngine")]
    okE = len(aggs) == 1
    if okE:
        f = dict(aggs[0][3])
        okE = f["max_speed"] == ("call", gm.path, (f["speed_table"],)) and f["speed_unit"] == ("arg", 2)
    ctx.check(okE, "engine:max-speed-of-table", "engine.max_speed is not get_max_speed(engine.speed_table) (same unit as the table)", eng.where())
    # ---- earth radius
    c = F.consts.get("routee_compass_core::util::geo::haversine::APPROX_EARTH_RADIUS_M")
    if c is None:
        raise AnchorMissing("APPROX_EARTH_RADIUS_M")
    import struct
    val = struct.unpack("<f", struct.pack("<I", int(c["bits"])))[0] if c.get("size") == 4 else float(c.get("as_f64", "nan"))
    # the estimate must not exceed the great-circle distance the property speaks of: that distance is defined on the
    # sphere of the mean earth radius (IUGG R1 = 6 371 008.8 m), so a greater radius (e.g. the WGS84 semi-major axis
    # 6 378 137 m, +0.112 %) makes the A* heuristic inadmissible on networks whose edges are exactly as long as the great
    # circle; a smaller one only weakens the heuristic (kept within 0.5 %)
    ctx.check(val <= 6371008.8 * (1 + 1e-6) and val >= 6371000.0 * 0.995, "earth-radius", "APPROX_EARTH_RADIUS_M = %s: the great-circle estimate must use a radius in [0.995 x 6 371 000 m, mean earth radius 6 371 008.8 m] (a greater radius over-estimates: A* inadmissible)" % val, None, detail=str(val))
    hv = F.need("routee_compass_core::util::geo::haversine::haversine_distance_meters")
    oks = [r for r in table(hv, max_paths=100000) if r.end == "return" and result_variant(r.ret) == "Ok"]
    okh = len(oks) >= 1
    for r in oks:
        v = agg_payload(r.ret)
        names = [x[1] for x in calls_in(v)]
        okh = okh and any(n.endswith("::asin") for n in names) and any(n.endswith("::sqrt") for n in names) and contains(v, lambda s: s == ("item", "routee_compass_core::util::geo::haversine::APPROX_EARTH_RADIUS_M"))
        A_ = Arith(F)
        A_.items_numeric = False
        asin = [x for x in calls_in(v) if x[1].endswith("::asin")]
        if asin:
            A_.symbols = {asin[0]: "asin", ("item", "routee_compass_core::util::geo::haversine::APPROX_EARTH_RADIUS_M"): "R"}
            got = A_.ev(v)
            okh = okh and got.equals(Ratio(Poly.const(2)) * Ratio(Poly.sym("R")) * Ratio(Poly.sym("asin")))
    ctx.check(okh, "haversine:formula", "result is not R * 2 * asin(sqrt(a))", hv.where(), detail="R*2*asin(sqrt(a))")


def R5_overrides(ctx):
    """C02.R5 query-time overrides reach the model"""
    F = ctx.F
    ctx.rule("C02.R5", "CostModelService::build passes the query's weights / vehicle_rates / cost_aggregation to CostModel::new when present (unmodified), the configured ones otherwise; network_rates from the service", floor=6)
    b = F.need("routee_compass::app::compass::config::cost_model::cost_model_service::CostModelService::build")
    tm = Terms(b)
    cs = b.calls_to(M + "cost::cost_model::CostModel::new")
    if len(cs) != 1:
        raise AnchorMissing("CostModel::new call in CostModelService::build")
    c = cs[0]
    args = [nosite(deep_strip(tm.operand(x, c.bb))) for x in c.args]

    def qread(key):
        return lambda t: any(x[0] == "call" and x[1].endswith("get_config_serde_optional") and x[2][0] == ("arg", 2) and x[2][1] == ("const", "&str", key) for x in subterms(t)) or any(x[0] == "call" and x[1].endswith("get_config_serde_optional") and x[2][0] == ("arg", 2) and len(x[2]) > 1 and x[2][1][0] == "const" and x[2][1][2] == key for x in subterms(t))

    for i, key, field in ((0, "weights", "weights"), (1, "vehicle_rates", "vehicle_rates"), (3, "cost_aggregation", "cost_aggregation")):
        t = args[i]
        has_q = qread(key)(t)
        conf = ("field", ("arg", 1), field)
        has_c = contains(t, lambda s: s == conf)
        cl = [s for s in subterms(t) if s[0] == "closure"]
        for k in cl:
            kb = F.bodies.get(k[1])
            if kb is None:
                continue
            for r in [r for r in table(kb) if r.end == "return"]:
                caps = k[2]
                sub = rewrite(r.ret, lambda s: caps[int(s[2])] if s[0] == "field" and s[1] == ("arg", 1) and s[2].isdigit() and int(s[2]) < len(caps) else None)
                if contains(sub, lambda s: s == conf):
                    has_c = True
                sel = r.sel.get(("arg", 2))
                if sel is None and kb.argc >= 2 and "Option<" not in kb.locals[2].get("ty", ""):
                    # a closure mapping the query's value itself (e.g. `.map(Arc::new)` written as a closure): it must hand the
                    # value on unmodified — no merge with / extension by the configured entries, no in-place mutation
                    raw = Terms(kb).return_term()
                    muts = [s_[2] for s_ in subterms(raw) if s_[0] == "mut"]
                    okq = r.ret == ("arg", 2) and not muts
                    ctx.check(okq, "%s:query-unmodified" % key, "the query's %s are altered before reaching the cost model (merged/extended with the configured ones? mutators %s): %s" % (key, muts[:1], short(r.ret)[:160]), kb.where(), detail=short(r.ret)[:80])
                if sel == "Some":
                    # the query's value must be handed on unmodified
                    okq = r.ret == ("arg", 2)
                    ctx.check(okq, "%s:query-unmodified" % key, "the query's %s are altered before reaching the cost model (merged/extended with the configured ones?): %s" % (key, short(r.ret)[:160]), kb.where(), detail=short(r.ret)[:80])
        ctx.check(has_q, "%s:from-query" % key, "CostModel::new argument %d does not come from query[%r]: %s" % (i, key, short(t)[:160]), c.where(), detail=short(t)[:120])
        ctx.check(has_c, "%s:fallback-configured" % key, "without a query value the configured %s are not used: %s" % (field, short(t)[:160]), c.where())
        ctx.check(t[0] != "mut" and not [s for s in subterms(t) if s[0] == "mut"], "%s:not-mutated" % key, "the value handed to CostModel::new is modified in place after it was read (%s)" % [s[2] for s in subterms(t) if s[0] == "mut"][:1], c.where())
    ctx.check(args[2] == ("field", ("arg", 1), "network_rates"), "network_rates", "network rates are not the service's: %s" % short(args[2]), c.where(), detail=short(args[2]))
    ctx.check(args[4] == ("arg", 3), "state_model", "the cost model is not built for the query's state model", c.where())


def R6_units(ctx):
    """C02.R4 unit agreement in the estimate functions"""
    sel = lambda fn: "estimate_traversal" in fn and "traversal::default::" in fn
    common.unit_rule(ctx, "C02.R6", "unit typestate in DistanceTraversalModel/SpeedTraversalModel::estimate_traversal: every (quantity, unit) pair handed to Time::create / add_time / add_distance names the unit the quantity is expressed in", sel, floor=5)


def S0(ctx):
    common.S0_order(ctx, "C02.S0", ["routee_compass_core::model::unit::cost::Cost", "routee_compass_core::model::unit::cost::ReverseCost", "routee_compass_core::model::unit::internal_float::InternalFloat", "routee_compass_core::model::unit::speed::Speed"])


def R7_feature_slots(ctx):
    """"the query's own objective" prices each feature's own slot: the indices CostModel::new stores come from
    StateModel::indexed_iter (index i = slot i; shared with C11.R4, see C07.R6)"""
    from props.C11 import R4_state_model
    R4_state_model(ctx)


def R8_limits_only_stop(ctx):
    """least cost is claimed for every *returned* route: a search that is stopped by a limit must not return at all — the
    destination's label is still tentative then (shared with C10.R1 limit error propagated and C05.R2 loop exits; round 7: `break`
    with the tree so far when the limit fires and the destination is already labelled)"""
    from props.C10 import R1_test_first
    from props.C05 import R2_loop_exits
    R1_test_first(ctx)
    R2_loop_exits(ctx)


RULES = [R1_relaxation, R2_queue, R3_dijkstra, R4_estimate, R5_overrides, R6_units, S0, R7_feature_slots, R8_limits_only_stop]
