"""C01 — routes are contiguous origin-to-destination walks; trees are rooted trees."""
from core import *
import astar
from astar import AStar

EXPLANATION = (
    "C01: what makes returned routes contiguous walks is visible in five places, each a necessary condition: the tree update in the search "
    "loop pairs key vertex, parent vertex and traversal of the *same* incident edge of the popped vertex; the direction helpers are mirror "
    "images (Forward: out-edges/dst/src/forward_traversal, Reverse: in-edges/src/dst/reverse_traversal) over the matching adjacency table; "
    "backtracking follows parent links from the target, fails on a missing entry or a repeated edge and reverses once; the edge-oriented "
    "wrappers start/end the sub-search at the right ends of the origin/destination edges and compose [origin edge] ++ route ++ [destination edge]; "
    "the reverse half of a via-route is re-traversed forward in reversed order from the forward half's last edge and state. "
    "Not decided: acyclicity/contiguity of trees on every graph (depends on runtime labels and C07)."
)

G = "routee_compass_core::model::network::graph::Graph::"
ET = astar.A + "edge_traversal::EdgeTraversal"
BR = astar.BRANCH


def R1_tree_update(ctx):
    """C01.R1 tree-update pairing"""
    ctx.rule("C01.R1", "the tree entry for edge e of the popped vertex is keyed tree_key_vertex_id(e), with terminal_vertex = terminal_vertex_id(e) and the traversal of e's own id; e ranges over get_incident_edges(popped vertex)", floor=6)
    a = AStar(ctx.F)
    e = nosite(a.e)
    eid = nosite(a.edge_id)
    d = ("arg", 3)
    want_e = ("call", G + "get_edge", (("field", ("arg", 5), "directed_graph"), eid))
    ctx.check(e == want_e, "edge-from-iterator", "the candidate edge is not get_edge(<id yielded by the incident-edge iterator>): %s" % short(e)[:160], a.vf.where())
    inc = calls_in(eid, astar.DIR + "get_incident_edges")
    cur = nosite(a.current())
    ok = len(inc) == 1 and inc[0][2] == (d, cur, ("arg", 5))
    ctx.check(ok, "incident-to-popped", "incident edges are not taken for the popped vertex in the search direction: %s" % (short(inc[0])[:160] if inc else "none"), a.next.where(), detail=short(inc[0])[:120] if inc else None)
    key = nosite(a.arg(a.ins_tree, 1))
    ctx.check(key == ("call", astar.DIR + "tree_key_vertex_id", (d, e)), "key", "tree key is not tree_key_vertex_id(direction, e): %s" % short(key)[:160], a.ins_tree.where())
    val = nosite(a.arg(a.ins_tree, 2))
    okv = val[0] == "agg" and val[1] == BR
    ctx.check(okv, "branch-aggregate", "inserted value is not a SearchTreeBranch built in place", a.ins_tree.where())
    if okv:
        f = dict(val[3])
        ctx.check(f.get("terminal_vertex") == ("call", astar.DIR + "terminal_vertex_id", (d, e)), "terminal", "terminal_vertex is not terminal_vertex_id(direction, e) of the same edge: %s" % short(f.get("terminal_vertex"))[:160], a.ins_tree.where())
        pet = f.get("edge_traversal")
        okp = pet is not None and pet[0] == "call" and pet[1] == astar.DIR + "perform_edge_traversal" and pet[2][0] == d and pet[2][1] == eid and pet[2][4] == ("arg", 5)
        ctx.check(okp, "traversal-of-e", "edge_traversal is not perform_edge_traversal(direction, id of e, ..): %s" % short(pet)[:200], a.ins_tree.where())
    # the whole map becomes SearchResult.tree
    ctx.check(nosite(a.arg(a.result_new, 0)) == nosite(a.arg(a.ins_tree, 0)), "map-returned", "the map filled by the loop is not the returned tree", a.result_new.where())


def R2_direction(ctx):
    """C01.R2 direction helpers are mirror images"""
    F = ctx.F
    ctx.rule("C01.R2", "Direction helpers: Forward -> (out_edges_iter, dst, src, forward_traversal), Reverse -> (in_edges_iter, src, dst, reverse_traversal); out_edges_iter reads adj, in_edges_iter reads rev, both at the vertex index; src/dst_vertex_id read the matching field", floor=14)
    exp = {
        "get_incident_edges": {"Forward": ("call", G + "out_edges_iter", (("field", ("arg", 3), "directed_graph"), ("arg", 2))), "Reverse": ("call", G + "in_edges_iter", (("field", ("arg", 3), "directed_graph"), ("arg", 2)))},
        "tree_key_vertex_id": {"Forward": ("field", ("arg", 2), "dst_vertex_id"), "Reverse": ("field", ("arg", 2), "src_vertex_id")},
        "terminal_vertex_id": {"Forward": ("field", ("arg", 2), "src_vertex_id"), "Reverse": ("field", ("arg", 2), "dst_vertex_id")},
        "perform_edge_traversal": {"Forward": ("call", ET + "::forward_traversal", tuple(("arg", i) for i in range(2, 6))), "Reverse": ("call", ET + "::reverse_traversal", tuple(("arg", i) for i in range(2, 6)))},
    }
    for fn, cells in exp.items():
        b = F.need(astar.DIR + fn)
        got = {}
        for r in [r for r in table(b) if r.end == "return"]:
            got[r.sel.get(("arg", 1))] = r.ret
        for v, want in cells.items():
            ctx.check(got.get(v) == want, "%s:%s" % (fn, v), "Direction::%s(%s) is %s, expected %s" % (fn, v, short(got.get(v)) if got.get(v) else None, short(want)), b.where(), detail=short(want))
    for fn, fld in (("out_edges_iter", "adj"), ("in_edges_iter", "rev")):
        b = F.need(G + fn)
        rows = [r for r in table(b) if r.end == "return"]
        look = ("call", "std::slice::<impl [T]>::get", (("field", ("arg", 1), fld), ("field", ("arg", 2), "0")))
        some = [r for r in rows if r.sel.get(look) == "Some"]
        ok = len(some) == 1 and some[0].ret[0] == "call" and some[0].ret[1].endswith("CompactOrderedHashMap::<K, V>::keys") and some[0].ret[2] == (look,)
        ctx.check(ok, "%s:table" % fn, "Graph::%s does not yield the keys of self.%s[vertex_id.0]: %s" % (fn, fld, [short(r.ret)[:120] for r in rows]), b.where(), detail="keys(self.%s[v])" % fld)
    for fn, fld in (("src_vertex_id", "src_vertex_id"), ("dst_vertex_id", "dst_vertex_id")):
        b = F.need(G + fn)
        rt = nosite(deep_strip(Terms(b).return_term()))
        ok = rt[0] == "call" and rt[1].endswith("::map") and rt[2][0] == ("call", G + "get_edge", (("arg", 1), ("arg", 2))) and rt[2][1][0] == "closure"
        if ok:
            crt = nosite(deep_strip(Terms(F.need(rt[2][1][1])).return_term()))
            ok = crt == ("field", ("arg", 2), fld)
        ctx.check(ok, "Graph::%s" % fn, "Graph::%s does not return get_edge(id).%s" % (fn, fld), b.where(), detail="get_edge(id).%s" % fld)
    b = F.need(G + "edge_triplet")
    oks = [r for r in table(b) if r.end == "return" and result_variant(r.ret) == "Ok"]
    ge = ("call", G + "get_edge", (("arg", 1), ("arg", 2)))
    gv = lambda f: ("call", G + "get_vertex", (("arg", 1), ("field", ge, f)))
    ok = len(oks) == 1 and agg_payload(oks[0].ret) == ("tuple", (gv("src_vertex_id"), ge, gv("dst_vertex_id")))
    ctx.check(ok, "Graph::edge_triplet", "edge_triplet is not (vertex(src), edge, vertex(dst))", b.where(), detail="(v(src), e, v(dst))")
    b = F.need(G + "get_edge")
    rows = [r for r in table(b) if r.end == "return"]
    look = ("call", "std::slice::<impl [T]>::get", (("field", ("arg", 1), "edges"), ("field", ("arg", 2), "0")))
    ok = any(r.sel.get(look) == "Some" and r.ret == ("agg", "std::result::Result", "Ok", (("0", look),)) for r in rows) and any(r.sel.get(look) == "None" and result_variant(r.ret) == "Err" for r in rows)
    ctx.check(ok, "Graph::get_edge", "get_edge is not edges[id.0] with Err for a miss", b.where(), detail="edges[id.0] / Err")


def R3_backtrack(ctx):
    """C01.R3 backtrack discipline"""
    F = ctx.F
    ctx.rule("C01.R3", "vertex_oriented_route walks this := tree[this].terminal_vertex from the target until the source, Err on a missing entry and on a repeated edge, one push per step, reversed exactly once; edge_oriented_route starts from (src of origin edge, dst of destination edge)", floor=9)
    b = F.need(astar.A + "backtrack::vertex_oriented_route")
    tm = Terms(b)
    gets = [c for c in b.calls() if c.callee and c.callee.startswith("std::collections::HashMap::<K, V, S, A>::get")]
    if len(gets) != 1:
        raise AnchorMissing("single tree lookup in vertex_oriented_route")
    g = gets[0]
    loop = innermost_loop(b, g.bb)
    ctx.check(loop is not None, "loop", "the tree lookup is not inside a loop", g.where())
    if loop is None:
        return
    recv = deep_strip(tm.operand(g.args[0], g.bb))
    ctx.check(recv == ("arg", 3), "lookup-in-tree", "lookup is not in the given tree", g.where())
    # the cursor local: the lookup key operand is a borrow of a local with two definitions
    cursor = root_local(b, g.args[1])
    if cursor is not None and len([d for d in b.defs.get(cursor, []) if not d[2]]) < 2:
        cursor = None
    if cursor is None:
        ctx.bad("cursor", "lookup key is not a cursor variable", g.where())
        return
    defs = [(bb, pos) for (bb, pos, proj) in b.defs.get(cursor, []) if pos != "term" and not proj]
    inits = [(bb, pos) for bb, pos in defs if bb not in loop[1]]
    upds = [(bb, pos) for bb, pos in defs if bb in loop[1]]
    entry = strip_try(deep_strip(tm.call_term(g.term, g.bb)))
    oki = len(inits) == 1 and deep_strip(tm.rvalue(b.blocks[inits[0][0]]["stmts"][inits[0][1]]["rv"], *inits[0])) == ("arg", 2)
    ctx.check(oki, "start-at-target", "the walk does not start at the target vertex", b.where())
    oku = len(upds) == 1
    if oku:
        ut = nosite(deep_strip(tm.rvalue(b.blocks[upds[0][0]]["stmts"][upds[0][1]]["rv"], *upds[0])))
        oku = loopfree(ut) == loopfree(("field", nosite(entry), "terminal_vertex"))
        ctx.check(oku, "advance-to-parent", "the cursor is not advanced to tree[cursor].terminal_vertex: %s" % short(ut)[:160], b.where(upds[0][0]), detail=short(ut)[:100])
    else:
        ctx.bad("advance-to-parent", "expected exactly one cursor update in the loop, found %d" % len(upds), b.where())
    # missing entry => Err (ok_or / ok_or_else + `?`)
    oo = [c for c in b.calls() if c.callee and re.search(r"Option::<T>::ok_or(_else)?$", c.callee) and loopfree(nosite(tm.operand(c.args[0], c.bb))) == loopfree(nosite(tm.call_term(g.term, g.bb)))]
    okm = len(oo) == 1 and try_propagation(b, oo[0], tm)["kind"] == "propagated"
    ctx.check(okm, "missing-entry=>Err", "a missing tree entry is not turned into a propagated Err", g.where())
    # repeated edge guard
    ins = [c for c in b.calls() if c.callee and c.callee.startswith("std::collections::HashSet::<T, S, A>::insert") and c.bb in loop[1]]
    okr = len(ins) == 1
    if okr:
        v = nosite(deep_strip(tm.operand(ins[0].args[1], ins[0].bb)))
        okr = loopfree(v) == loopfree(("field", ("field", nosite(entry), "edge_traversal"), "edge_id"))
        verdict = deep_strip(tm.call_term(ins[0].term, ins[0].bb))
        sw = None
        for bb, dt, names, t in switches(b, tm):
            d = deep_strip(dt)
            neg = False
            if d[0] == "un" and d[1] == "Not":
                d, neg = d[2], True
            if d == verdict:
                fl, tr = bool_targets(t)
                if neg:
                    fl, tr = tr, fl
                sw = (bb, fl, tr)
        if sw is None:
            okr = False
        else:
            vals = region_value(b, (sw[0], sw[1]), stop_blocks=[g.bb])
            okr = okr and bool(vals) and all(is_err_value(deep_strip(v)) for _, v in vals)
    ctx.check(okr, "repeated-edge=>Err", "there is no guard that returns Err when an edge id is seen twice (HashSet::insert == false)", b.where())
    # one push per step of the entry's traversal
    pushes = [c for c in b.calls() if c.callee and c.callee.startswith("std::vec::Vec::<T, A>::push") and c.bb in loop[1]]
    okp = len(pushes) == 1 and loopfree(nosite(deep_strip(tm.operand(pushes[0].args[1], pushes[0].bb)))) == loopfree(("field", nosite(entry), "edge_traversal"))
    ctx.check(okp, "push-entry-traversal", "each step does not push tree[cursor].edge_traversal exactly once", b.where())
    # loop ends exactly when cursor == source
    exits = [(x, y) for (x, y) in loop_exit_edges(b, loop[1])]
    normal = []
    for (x, y) in exits:
        vals = region_value(b, (x, y))
        if vals and all(is_err_value(deep_strip(v)) for _, v in vals):
            continue
        normal.append((x, y))
    oke = len(normal) == 1
    if oke:
        x, y = normal[0]
        t = b.blocks[x]["term"]
        oke = False
        if t["k"] == "switch":
            d, names = switch_discr_info(b, x)
            c = as_cmp(deep_strip(tm.operand(d, x)))
            if c and c[0] == "Eq":
                ops = {nosite(unmut(c[1])), nosite(unmut(c[2]))}
                fl, tr = bool_targets(t)
                oke = ("arg", 1) in ops and tr == y
    ctx.check(oke, "stop-at-source", "the loop's only normal exit is not `cursor == source`", b.where())
    # reversed exactly once
    rt = tm.return_term()
    revs = [c for c in calls_in(rt) if re.search(r"Iterator::rev$|slice::<impl \[T\]>::reverse$", c[1])]
    revcalls = [c for c in b.calls() if c.callee and re.search(r"Iterator::rev$|slice::<impl \[T\]>::reverse$", c.callee)]
    ctx.check(len(revcalls) == 1, "reversed-once", "the collected edges are reversed %d times (expected exactly once)" % len(revcalls), b.where(), detail="rev() x1")
    # edge oriented
    eb = F.need(astar.A + "backtrack::edge_oriented_route")
    ert = nosite(deep_strip(Terms(eb).return_term()))
    want = ("call", b.path, (("call", G + "src_vertex_id", (("arg", 4), ("arg", 1))), ("call", G + "dst_vertex_id", (("arg", 4), ("arg", 2))), ("arg", 3)))
    alts = set(ert[1]) if ert[0] == "phi" else {ert}
    ctx.check(want in alts, "edge-oriented-ends", "edge_oriented_route does not backtrack from dst(target edge) to src(source edge): %s" % short(ert)[:200], eb.where(), detail=short(want)[:120])


def _edge_oriented(ctx, b, is_ksp):
    """shared checks for the two edge-oriented wrappers"""
    F = ctx.F
    tm = Terms(b)
    name = "ksp" if is_ksp else "a*"
    si = ("arg", 6) if is_ksp else ("arg", 5)
    graph = ("field", si, "directed_graph")
    e1s, e1d = ("call", G + "src_vertex_id", (graph, ("arg", 1))), ("call", G + "dst_vertex_id", (graph, ("arg", 1)))
    e2s, e2d = ("call", G + "src_vertex_id", (graph, ("arg", 2))), ("call", G + "dst_vertex_id", (graph, ("arg", 2)))
    inner = astar.A + ("search_algorithm::SearchAlgorithm::run_vertex_oriented" if is_ksp else "a_star::a_star_algorithm::run_a_star")
    subs = b.calls_to(inner)
    with_t = []
    for c in subs:
        args = [nosite(deep_strip(tm.operand(x, c.bb))) for x in c.args]
        off = 1 if is_ksp else 0
        src, dst = args[off], args[off + 1]
        if dst == ("agg", "std::option::Option", "None", ()):
            ctx.check(src == e1d, name + ":tree-search-start", "destination-less sub-search does not start at dst(origin edge): %s" % short(src), c.where(), detail=short(src))
        else:
            with_t.append(c)
            ok = src == e1d and dst == ("agg", "std::option::Option", "Some", (("0", e2s),))
            ctx.check(ok, name + ":sub-search-ends", "sub-search is not run from dst(origin edge) to src(destination edge): (%s, %s)" % (short(src), short(dst)), c.where(), detail="(dst(e1), Some(src(e2)))")
    ctx.check(len(with_t) == 1, name + ":sub-search-found", "expected one sub-search with a destination, found %d" % len(with_t), b.where())
    # guards
    eqs = {}
    for bb, dt, names, t in switches(b, tm):
        c = as_cmp(deep_strip(dt))
        if c and c[0] == "Eq":
            eqs[frozenset([nosite(c[1]), nosite(c[2])])] = (bb, t)
    same = frozenset([("arg", 1), ("arg", 2)])
    adj = frozenset([e1d, e2s])
    ctx.check(same in eqs, name + ":same-edge-guard", "no guard `source == target edge`", b.where())
    ctx.check(adj in eqs, name + ":adjacent-guard", "the adjacency shortcut is not guarded by dst(origin edge) == src(destination edge) (guards found: %s)" % [sorted(short(x) for x in k) for k in eqs], b.where(), detail="dst(e1) == src(e2)")
    # adjacent case: traversals and tree
    fts = b.calls_to(ET + "::forward_traversal")
    init = ("call", "routee_compass_core::model::state::state_model::StateModel::initial_state", (("field", si, "state_model"),))
    t1 = ("call", ET + "::forward_traversal", (("arg", 1), ("agg", "std::option::Option", "None", ()), init, si))
    t2 = ("call", ET + "::forward_traversal", (("arg", 2), ("agg", "std::option::Option", "Some", (("0", ("arg", 1)),)), ("field", t1, "result_state"), si))
    got = [nosite(strip_try(deep_strip(tm.call_term(c.term, c.bb)))) for c in fts]
    ctx.check(set(got) == {t1, t2}, name + ":adjacent-traversals", "adjacent case does not traverse origin edge (no predecessor, initial state) then destination edge (predecessor origin, origin's result state)", b.where(), detail="fwd(e1, None, init), fwd(e2, Some(e1), state1)")
    # tree of the adjacent case: {e2_dst: (e2_src, t2), e1_dst: (e1_src, t1)}
    froms = [c for c in b.calls() if c.callee and "HashMap" in c.callee and c.callee.endswith("::from") or (c.callee and "std::convert::From<[(K, V); N]>" in c.callee)]
    pairs = None
    for bb, blk in enumerate(b.blocks):
        for pos, s in enumerate(blk["stmts"]):
            if s["k"] == "assign" and s["rv"]["k"] == "agg" and s["rv"].get("agg") == "array" and len(s["rv"]["fields"]) == 2:
                t = nosite(deep_strip(tm.rvalue(s["rv"], bb, pos)))
                if all(x[0] == "tuple" and len(x[1]) == 2 and x[1][1][0] == "agg" and x[1][1][1] == BR for x in t[1]):
                    pairs = {x[1][0]: dict(x[1][1][3]) for x in t[1]}
                if all(x[0] == "call" or x[0] == "agg" for x in t[1]) and is_ksp and all(nosite(x) in (t1, t2) for x in t[1]):
                    ctx.check(list(t[1]) == [t1, t2], name + ":adjacent-route-order", "adjacent-case route is not [origin edge, destination edge]", b.where(bb), detail="[t(e1), t(e2)]")
    okt = pairs is not None and set(pairs) == {e1d, e2d} and pairs[e2d].get("terminal_vertex") == e2s and pairs[e2d].get("edge_traversal") == t2 and pairs[e1d].get("terminal_vertex") == e1s and pairs[e1d].get("edge_traversal") == t1
    ctx.check(okt, name + ":adjacent-tree", "adjacent-case tree is not {dst(e2): (parent src(e2), traversal of e2), dst(e1): (parent src(e1), traversal of e1)}: %s" % ({short(k): {n: short(v)[:50] for n, v in d.items()} for k, d in pairs.items()} if pairs else None), b.where())
    return tm, (e1s, e1d, e2s, e2d), with_t


def R4_edge_oriented(ctx):
    """C01.R4 edge-oriented composition"""
    F = ctx.F
    ctx.rule("C01.R4", "edge-oriented wrappers: sub-search from dst(origin edge) to src(destination edge); shortcut only when those coincide; adjacent case = [origin, destination] with matching tree; every route gets the origin edge at position 0 and the destination edge appended; synthetic branches keyed (dst(e1), dst(e2)) with parents (src(e1), src(e2)); destination binding unconditional", floor=16)
    kb = F.need(astar.A + "search_algorithm::run_edge_oriented")
    tm, (e1s, e1d, e2s, e2d), subs = _edge_oriented(ctx, kb, True)
    # routes: insert(0, src_et) and push(dst_et) in a loop over all routes of the sub-result
    ins0 = [c for c in kb.calls() if c.callee and c.callee.startswith("std::vec::Vec::<T, A>::insert")]
    push = [c for c in kb.calls() if c.callee and c.callee.startswith("std::vec::Vec::<T, A>::push")]
    zero = ("item", astar.COST + "::ZERO")
    n_ok = 0
    for c in ins0:
        idx = deep_strip(tm.operand(c.args[1], c.bb))
        v = nosite(deep_strip(tm.operand(c.args[2], c.bb)))
        ok = idx == ("const", "usize", 0) and v[0] == "agg" and v[1] == ET and dict(v[3]).get("edge_id") == ("arg", 1) and innermost_loop(kb, c.bb) is not None
        ctx.check(ok, "ksp:origin-edge-first", "the origin edge is not inserted at position 0 of every route", c.where(), detail="route.insert(0, origin edge)")
        n_ok += ok
    ctx.check(len(ins0) == 2, "ksp:origin-edge-sites", "expected the origin edge to be prepended in both the tree-only and the routed case (found %d sites)" % len(ins0), kb.where())
    okp = len(push) == 1
    if okp:
        v = nosite(deep_strip(tm.operand(push[0].args[1], push[0].bb)))
        lp = innermost_loop(kb, push[0].bb)
        okp = v[0] == "agg" and v[1] == ET and dict(v[3]).get("edge_id") == ("arg", 2) and lp is not None
        if okp:
            # the loop ranges over all routes of the sub-result (iter_mut, no take/skip)
            recv = nosite(deep_strip(tm.operand(push[0].args[0], push[0].bb)))
            trunc = [x[1] for x in calls_in(recv) if re.search(r"Iterator>?::(take|skip|filter|step_by)$", x[1])]
            okp = not trunc and bool(calls_in(recv, "iter_mut"))
            st = dict(v[3]).get("result_state")
            okp = okp and bool(calls_in(st, "last"))
    ctx.check(okp, "ksp:destination-edge-last", "the destination edge (with the route's final state) is not appended to every route", kb.where(), detail="route.push(destination edge)")
    # ---- A* wrapper
    ab = F.need(astar.A + "a_star::a_star_algorithm::run_a_star_edge_oriented")
    tm2, (e1s, e1d, e2s, e2d), subs2 = _edge_oriented(ctx, ab, False)
    exts = [c for c in ab.calls() if c.callee and c.callee.endswith("::extend") and "HashMap" in (c.func.get("impl_self") or c.func.get("self_ty") or c.callee)]
    keys = {}
    for c in exts:
        v = nosite(deep_strip(tm2.operand(c.args[1], c.bb)))
        if v[0] == "array" and len(v[1]) == 1 and v[1][0][0] == "tuple":
            k, br = v[1][0][1]
            keys.setdefault(k, []).append((c, dict(br[3]) if br[0] == "agg" else {}))
    ctx.check(e1d in keys and all(d.get("terminal_vertex") == e1s and dict(d.get("edge_traversal", ("agg", "", "", ()))[3]).get("edge_id") == ("arg", 1) for _, d in keys.get(e1d, [])), "a*:origin-branch", "origin branch is not {dst(e1): parent src(e1), edge e1}", ab.where(), detail="tree[dst(e1)] = (src(e1), e1)")
    okd = e2d in keys and all(d.get("terminal_vertex") == e2s and dict(d.get("edge_traversal", ("agg", "", "", ()))[3]).get("edge_id") == ("arg", 2) for _, d in keys.get(e2d, []))
    ctx.check(okd, "a*:destination-branch", "destination branch is not {dst(e2): parent src(e2), edge e2}", ab.where(), detail="tree[dst(e2)] = (src(e2), e2)")
    # destination binding must not depend on what the search already labelled
    for c, d in keys.get(e2d, []):
        cond = None
        for bb, dt, names, t in switches(ab, tm2):
            dd = deep_strip(dt)
            neg = dd[0] == "un" and dd[1] == "Not"
            if neg:
                dd = dd[2]
            if dd[0] == "call" and dd[1].endswith("contains_key") and nosite(dd[2][1]) == e2d and bb in ab.dom.get(c.bb, ()):
                cond = bb
        ctx.check(cond is None, "run_a_star_edge_oriented:destination-binding-conditional", "the destination branch is inserted only `if !tree.contains_key(dst(e2))`: when the search already labelled dst(e2), backtracking from it follows the search's own branch and the route never traverses the destination edge", c.where())


def R5_reorient(ctx, rid="C01.R5"):
    """C01.R5 reverse half is re-oriented"""
    F = ctx.F
    ctx.rule(rid, "reorient_reverse_route consumes the reverse route's edge ids in reversed order prefixed by the forward route's last edge id, re-traverses each consecutive pair forward with a state carried from the previous result (starting from the forward route's last state); single-via chains forward route then re-oriented route", floor=7)
    b = F.need(astar.A + "a_star::bidirectional_ops::reorient_reverse_route")
    tm = Terms(b)
    fts = b.calls_to(ET + "::forward_traversal")
    if len(fts) != 1:
        raise AnchorMissing("forward_traversal call in reorient_reverse_route")
    ft = fts[0]
    loop = innermost_loop(b, ft.bb)
    ctx.check(loop is not None, "loop", "re-traversal is not in a loop", ft.where())
    args = [nosite(deep_strip(tm.operand(x, ft.bb))) for x in ft.args]
    win = [c for c in calls_in(args[0]) if c[1].endswith("tuple_windows")]
    ctx.check(bool(win), "pairs:windows", "consecutive pairs are not taken with tuple_windows over the id list", ft.where())
    # next = pair.1, prev = pair.0 of the same window element
    nxt = [c for c in b.calls() if c.func.get("method") == "next" and loop and c.bb in loop[1]]
    okpair = False
    if nxt:
        item = nosite(deep_strip(tm.call_term(nxt[0].term, nxt[0].bb)))
        okpair = unmut(args[0]) == unmut(("field", item, "1")) and unmut(args[1]) == unmut(("field", item, "0"))
    ctx.check(okpair, "pairs:roles", "forward_traversal is not called with (next = window.1, previous = window.0): (%s, %s)" % (short(args[0])[:80], short(args[1])[:80]), ft.where(), detail="(w.1, w.0)")
    ctx.check(args[3] == ("arg", 3), "search-instance", "re-traversal does not use the caller's search instance", ft.where())
    # id list: rev() over rev_route ids, with the forward route's last edge id inserted at 0
    ins = [c for c in b.calls() if c.callee and c.callee.startswith("std::vec::Vec::<T, A>::insert")]
    oki = len(ins) == 1
    if oki:
        idx = deep_strip(tm.operand(ins[0].args[1], ins[0].bb))
        v = nosite(deep_strip(tm.operand(ins[0].args[2], ins[0].bb)))
        lst = ("call", "std::slice::<impl [T]>::last", (("arg", 1),))
        alts = set(v[1]) if v[0] == "phi" else {v}
        oki = idx == ("const", "usize", 0) and any(contains(x, lambda s: s == ("field", lst, "edge_id")) for x in alts)
        base = nosite(deep_strip(tm.operand(ins[0].args[0], ins[0].bb)))
        revs = [c for c in calls_in(base) if itm(c[1], "rev")]
        okr = len(revs) == 1 and contains(revs[0], lambda s: s == ("call", "std::slice::<impl [T]>::iter", (("arg", 2),)))
        ctx.check(okr, "ids:reversed", "the reverse route's edges are not consumed in reversed order (rev() over rev_route.iter())", ins[0].where(), detail="rev_route.iter().rev()")
    ctx.check(oki, "ids:prefixed-by-last-forward-edge", "the id list is not prefixed (insert at 0) with the forward route's last edge id", b.where(), detail="insert(0, fwd.last().edge_id)")
    # state: loop-carried from the traversal result, initialised from the forward route's last state
    st_op = ft.args[2]
    st = tm.operand(st_op, ft.bb)
    stn = nosite(deep_strip(st))
    alts = set(stn[1]) if stn[0] == "phi" else {stn}
    has_init = any(contains(x, lambda s: s == ("field", ("call", "std::slice::<impl [T]>::last", (("arg", 1),)), "result_state")) for x in alts)
    has_carry = any(contains(x, lambda s: s[0] == "loop") or contains(x, lambda s: s[0] == "field" and s[2] == "result_state" and contains(s[1], lambda q: q[0] == "call" and q[1] == ET + "::forward_traversal")) for x in alts)
    ctx.check(has_init, "state:starts-from-forward-half", "the first re-traversal does not start from the forward route's final state: %s" % short(stn)[:200], ft.where())
    ctx.check(has_carry, "state:carried", "the accumulated state is not updated from each traversal's result (stale state): %s" % short(stn)[:200], ft.where())
    # every re-traversed edge is pushed once
    pushes = [c for c in b.calls() if c.callee and c.callee.startswith("std::vec::Vec::<T, A>::push") and loop and c.bb in loop[1]]
    okp = len(pushes) == 1
    if okp:
        pv = nosite(strip_try(deep_strip(tm.operand(pushes[0].args[1], pushes[0].bb))))
        okp = pv[0] == "call" and pv[1] == ET + "::forward_traversal" and pv[2][:2] == tuple(args[:2])
    ctx.check(okp, "push-each", "each re-traversed edge is not pushed exactly once to the result", b.where())
    # single via: chain(fwd, reoriented)
    sb = F.need(astar.A + "ksp::single_via_paths_algorithm::run")
    stm = Terms(sb)
    ch = [c for c in sb.calls() if c.callee and itm(c.callee, "chain")]
    okc = len(ch) == 1
    if okc:
        a0 = nosite(deep_strip(stm.operand(ch[0].args[0], ch[0].bb)))
        a1 = nosite(deep_strip(stm.operand(ch[0].args[1], ch[0].bb)))
        ro = calls_in(a1, b.path)
        okc = len(ro) == 1 and not calls_in(a0, b.path) and contains(a0, lambda s: s == ro[0][2][0])
    ctx.check(okc, "single-via:chain-order", "single-via does not chain the forward route followed by the re-oriented reverse route built from it", sb.where(), detail="fwd_route.chain(reoriented)")


def loop_test_rule(ctx, rid):
    """route_contains_loop = the source vertices of the route's edges are not all distinct"""
    F = ctx.F
    ctx.rule(rid, "route_contains_loop compares the number of *distinct* source vertices (set semantics: unique()/HashSet) of all route edges with their total number, `distinct < all`", floor=3)
    b = F.need(astar.A + "a_star::bidirectional_ops::route_contains_loop")
    rows = [r for r in table(b) if r.end == "return" and result_variant(r.ret) == "Ok"]
    ctx.check(len(rows) == 1, "paths", "expected one Ok path, found %d" % len(rows), b.where())
    if not rows:
        return
    v = agg_payload(rows[0].ret)
    c = as_cmp(v)
    if not c:
        ctx.bad("comparison", "result is not a comparison of two counts: %s" % short(v)[:200], b.where())
        return
    c = canon_cmp(c)
    small, big = c[1], c[2]
    srcs = [x for x in calls_in(big) if itm(x[1], "map")]
    oka = c[0] == "Lt" and len(srcs) == 1 and srcs[0][2][0] == ("call", "std::slice::<impl [T]>::iter", (("arg", 1),))
    if oka:
        cb = F.need(srcs[0][2][1][1])
        crt = nosite(deep_strip(Terms(cb).return_term()))
        oka = crt[0] == "call" and crt[1] == G + "src_vertex_id" and crt[2][1] == ("field", ("arg", 2), "edge_id")
    ctx.check(oka, "all-source-vertices", "the reference count is not the number of source vertices of all route edges (strictly greater than the distinct count)", b.where(), detail="distinct < len(src vertices of route)")
    names = [x[1] for x in calls_in(small)]
    setlike = [n for n in names if re.search(r"Itertools::unique$|HashSet|BTreeSet|Itertools::unique_by$", n)]
    weak = [n for n in names if re.search(r"dedup|Itertools::dedup", n)]
    ctx.check(bool(setlike) and not weak, "distinct-count", "the smaller count is not a set-semantics distinct count (found %s): consecutive-only de-duplication misses loops" % [n.split("::")[-1] for n in names][:6], b.where(), detail=[n.split("::")[-1] for n in setlike])
    same = contains(small, lambda s: s == srcs[0]) if srcs else False
    ctx.check(same, "same-vertices", "distinct count is not taken over the same source-vertex list", b.where())


def R6_loop_test(ctx):
    """C01.R6 loop test used for stitched routes"""
    loop_test_rule(ctx, "C01.R6")


RULES = [R1_tree_update, R2_direction, R3_backtrack, R4_edge_oriented, R5_reorient, R6_loop_test]
