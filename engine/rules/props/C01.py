"""C01 — routes are contiguous origin-to-destination walks; trees are rooted trees."""
from core import *
import astar
from astar import AStar

EXPLANATION = (
    "C01: what makes returned routes contiguous walks is visible in five places, each a necessary condition: the tree update in the search "
    "loop pairs key vertex, parent vertex and traversal of the *same* incident edge of the popped vertex; the direction helpers are mirror "
    "images (Forward: out-edges/dst/src/forward_traversal, Reverse: in-edges/src/dst/reverse_traversal) over the matching adjacency table; "
    "backtracking follows parent links from the target, fails on a missing entry or a repeated edge and reverses once; the edge-oriented "
    "wrappers start/end the sub-search at the right ends of the origin/destination edges and compose [origin edge] ++ route ++ [destination edge]; "
    "the reverse half of a via-route is re-traversed forward in reversed order from the forward half's last edge and state. "
    "Not decided: acyclicity/contiguity of trees on every graph (depends on runtime labels and C07)."
)

G = "routee_compass_core::model::network::graph::Graph::"
ET = astar.A + "edge_traversal::EdgeTraversal"
BR = astar.BRANCH


def R1_tree_update(ctx):
    """C01.R1 tree-update pairing"""
    ctx.rule("C01.R1", "the tree entry for edge e of the popped vertex is keyed tree_key_vertex_id(e), with terminal_vertex = terminal_vertex_id(e) and the traversal of e's own id; e ranges over get_incident_edges(popped vertex)", floor=6)
    a = AStar(ctx.F)
    e = nosite(a.e)
    eid = nosite(a.edge_id)
    d = ("arg", 3)
    want_e = ("call", G + "get_edge", (("field", ("arg", 5), "directed_graph"), eid))
    ctx.check(e == want_e, "edge-from-iterator", "the candidate edge is not get_edge(<id yielded by the incident-edge iterator>): %s" % short(e)[:160], a.vf.where())
    inc = calls_in(eid, astar.DIR + "get_incident_edges")
    cur = nosite(a.current())
    ok = len(inc) == 1 and inc[0][2] == (d, cur, ("arg", 5))
    ctx.check(ok, "incident-to-popped", "incident edges are not taken for the popped vertex in the search direction: %s" % (short(inc[0])[:160] if inc else "none"), a.next.where(), detail=short(inc[0])[:120] if inc else None)
    key = nosite(a.arg(a.ins_tree, 1))
    ctx.check(key == ("call", astar.DIR + "tree_key_vertex_id", (d, e)), "key", "tree key is not tree_key_vertex_id(direction, e): %s" % short(key)[:160], a.ins_tree.where())
    val = nosite(a.arg(a.ins_tree, 2))
    okv = val[0] == "agg" and val[1] == BR
    ctx.check(okv, "branch-aggregate", "inserted value is not a SearchTreeBranch built in place", a.ins_tree.where())
    if okv:
        f = dict(val[3])
        ctx.check(f.get("terminal_vertex") == ("call", astar.DIR + "terminal_vertex_id", (d, e)), "terminal", "terminal_vertex is not terminal_vertex_id(direction, e) of the same edge: %s" % short(f.get("terminal_vertex"))[:160], a.ins_tree.where())
        pet = f.get("edge_traversal")
        okp = pet is not None and pet[0] == "call" and pet[1] == astar.DIR + "perform_edge_traversal" and pet[2][0] == d and pet[2][1] == eid and pet[2][4] == ("arg", 5)
        ctx.check(okp, "traversal-of-e", "edge_traversal is not perform_edge_traversal(direction, id of e, ..): %s" % short(pet)[:200], a.ins_tree.where())
    # the whole map becomes SearchResult.tree
    ctx.check(nosite(a.arg(a.result_new, 0)) == nosite(a.arg(a.ins_tree, 0)), "map-returned", "the map filled by the loop is not the returned tree", a.result_new.where())


def R2_direction(ctx):
    """C01.R2 direction helpers are mirror images"""
    F = ctx.F
    ctx.rule("C01.R2", "Direction helpers: Forward -> (out_edges_iter, dst, src, forward_traversal), Reverse -> (in_edges_iter, src, dst, reverse_traversal); out_edges_iter reads adj, in_edges_iter reads rev, both at the vertex index; src/dst_vertex_id read the matching field", floor=14)
    exp = {
        "get_incident_edges": {"Forward": ("call", G + "out_edges_iter", (("field", ("arg", 3), "directed_graph"), ("arg", 2))), "Reverse": ("call", G + "in_edges_iter", (("field", ("arg", 3), "directed_graph"), ("arg", 2)))},
        "tree_key_vertex_id": {"Forward": ("field", ("arg", 2), "dst_vertex_id"), "Reverse": ("field", ("arg", 2), "src_vertex_id")},
        "terminal_vertex_id": {"Forward": ("field", ("arg", 2), "src_vertex_id"), "Reverse": ("field", ("arg", 2), "dst_vertex_id")},
        "perform_edge_traversal": {"Forward": ("call", ET + "::forward_traversal", tuple(("arg", i) for i in range(2, 6))), "Reverse": ("call", ET + "::reverse_traversal", tuple(("arg", i) for i in range(2, 6)))},
    }
    for fn, cells in exp.items():
        b = F.need(astar.DIR + fn)
        got = {}
        for r in [r for r in table(b) if r.end == "return"]:
            got[r.sel.get(("arg", 1))] = r.ret
        for v, want in cells.items():
            if got.get(v) != want:
                # the helper may hand the direction on to a sibling table (Graph::incident_edges_iter(v, self)): evaluate under it
                sv = spec_eval(F, b, {1: v})
                if sv == want:
                    got[v] = sv
            ctx.check(got.get(v) == want, "%s:%s" % (fn, v), "Direction::%s(%s) is %s, expected %s" % (fn, v, short(got.get(v)) if got.get(v) else None, short(want)), b.where(), detail=short(want))
    for fn, fld in (("out_edges_iter", "adj"), ("in_edges_iter", "rev")):
        b = F.need(G + fn)
        rows = [r for r in table(b) if r.end == "return"]
        look = ("call", "std::slice::<impl [T]>::get", (("field", ("arg", 1), fld), ("field", ("arg", 2), "0")))
        some = [r for r in rows if r.sel.get(look) == "Some"]
        ok = len(some) == 1 and some[0].ret[0] == "call" and some[0].ret[1].endswith("CompactOrderedHashMap::<K, V>::keys") and some[0].ret[2] == (look,)
        ctx.check(ok, "%s:table" % fn, "Graph::%s does not yield the keys of self.%s[vertex_id.0]: %s" % (fn, fld, [short(r.ret)[:120] for r in rows]), b.where(), detail="keys(self.%s[v])" % fld)
    for fn, fld in (("src_vertex_id", "src_vertex_id"), ("dst_vertex_id", "dst_vertex_id")):
        b = F.need(G + fn)
        # get_edge(id).map(|e| e.fld)  or  Ok(get_edge(id)?.fld): in the payload convention both are get_edge(id).fld
        rt = norm_adaptors(F, nosite(deep_strip(Terms(b).return_term())))
        alts = [x for x in (rt[1] if rt[0] == "phi" else [rt]) if not is_err_value(x) and result_variant(x) != "Err"]
        alts = [agg_payload(x) if result_variant(x) == "Ok" else x for x in alts]
        ok = len(alts) == 1 and alts[0] == ("field", ("call", G + "get_edge", (("arg", 1), ("arg", 2))), fld)
        ok = ok and all(try_propagation(b, c)["kind"] in ("propagated", "returned") or error_flow(F, b, c).get("ok") for c in b.calls_to(G + "get_edge"))
        ctx.check(ok, "Graph::%s" % fn, "Graph::%s does not return get_edge(id).%s" % (fn, fld), b.where(), detail="get_edge(id).%s" % fld)
    b = F.need(G + "edge_triplet")
    oks = [r for r in table(b) if r.end == "return" and result_variant(r.ret) == "Ok"]
    ge = ("call", G + "get_edge", (("arg", 1), ("arg", 2)))
    gv = lambda f: ("call", G + "get_vertex", (("arg", 1), ("field", ge, f)))
    ok = len(oks) == 1 and agg_payload(oks[0].ret) == ("tuple", (gv("src_vertex_id"), ge, gv("dst_vertex_id")))
    ctx.check(ok, "Graph::edge_triplet", "edge_triplet is not (vertex(src), edge, vertex(dst))", b.where(), detail="(v(src), e, v(dst))")
    b = F.need(G + "get_edge")
    look = ("call", "std::slice::<impl [T]>::get", (("field", ("arg", 1), "edges"), ("field", ("arg", 2), "0")))
    ok = is_lookup_or_err(F, b, look)
    ctx.check(ok, "Graph::get_edge", "get_edge is not edges[id.0] with Err for a miss", b.where(), detail="edges[id.0] / Err")


def R3_backtrack(ctx):
    """C01.R3 backtrack discipline (decided on the loop's one-iteration transfer function, independent of loop/while/match/? spelling)"""
    F = ctx.F
    ctx.rule("C01.R3", "vertex_oriented_route: a cursor starts at the target; every turn looks the cursor up in the given tree, Err when the entry is missing, Err when its edge id was already inserted into the visited set, pushes that entry's traversal exactly once and moves the cursor to the entry's terminal_vertex; the only non-error way out of the loop is cursor == source; the collected edges are reversed exactly once and returned; edge_oriented_route starts from (src of origin edge, dst of destination edge)", floor=9)
    b = F.need(astar.A + "backtrack::vertex_oriented_route")
    tm = Terms(b)
    gets = [c for c in b.calls() if c.callee and c.callee.startswith("std::collections::HashMap::<K, V, S, A>::get")]
    if len(gets) != 1:
        raise AnchorMissing("single tree lookup in vertex_oriented_route")
    g = gets[0]
    loop = outermost_loop(b, g.bb)
    if not ctx.check(loop is not None, "loop", "the tree lookup is not inside a loop", g.where()):
        return
    h = loop[0]
    rows = iteration_table(b, h)
    backs = [r for r in rows if r.kind == "back"]
    rets = [r for r in rows if r.kind == "return"]
    U = lambda t: _unmut_all(nosite(deep_strip(t)))
    # the cursor: the carried local used as the lookup key
    cursor = None
    for r in backs:
        for _, v in r.calls:
            if v[0] == "call" and v[1].startswith("std::collections::HashMap::<K, V, S, A>::get"):
                k = U(v[2][1])
                if k[0] == "carried":
                    cursor = k[1]
    if not ctx.check(cursor is not None and bool(backs), "cursor", "the lookup key is not a loop-carried cursor", g.where()):
        return
    C = ("carried", cursor)
    entry = ("call", g.callee, (("arg", 3), C))
    ctx.check(U(loop_entry_value(b, h, cursor)) == ("arg", 2), "start-at-target", "the walk does not start at the target vertex: %s" % short(U(loop_entry_value(b, h, cursor))), b.where(), detail="cursor = target")
    ok_look = ok_adv = ok_push = ok_ins = True
    for r in backs:
        calls = [U(v) for _, v in r.calls]
        looks = [v for _, k, v in r.sites if k == g.callee]
        ok_look = ok_look and [U(v) for v in looks] == [entry]
        ok_adv = ok_adv and U(r.new(cursor)) == ("field", entry, "terminal_vertex")
        pushes = [U(v) for _, k, v in r.sites if (k or "").startswith("std::vec::Vec::<T, A>::push")]
        ok_push = ok_push and len(pushes) == 1 and pushes[0][2][1] == ("field", entry, "edge_traversal")
        ins = [U(v) for _, k, v in r.sites if (k or "").startswith("std::collections::HashSet::<T, S, A>::insert")]
        good = len(ins) == 1 and ins[0][2][1] == ("field", ("field", entry, "edge_traversal"), "edge_id")
        if good:
            # the turn continues only when insert returned true
            good = any(U(d) == ins[0] and l != 0 for d, l, _ in r.conds) or any(U(d) == ("un", "Not", ins[0]) and l == 0 for d, l, _ in r.conds)
        ok_ins = ok_ins and good
    ctx.check(ok_look, "lookup-in-tree", "a turn does not look the cursor up in the given tree (exactly once)", g.where(), detail="tree.get(&cursor)")
    ctx.check(ok_adv, "advance-to-parent", "the cursor is not advanced to tree[cursor].terminal_vertex", b.where(h), detail="cursor = entry.terminal_vertex")
    ctx.check(ok_push, "push-entry-traversal", "each step does not push tree[cursor].edge_traversal exactly once", b.where(h), detail="route.push(entry.edge_traversal)")
    ctx.check(ok_ins, "repeated-edge=>Err", "a turn does not insert the entry's edge id into the visited set and continue only when it was new", b.where(h), detail="visited.insert(edge_id) must be true")
    # exits
    src_eq = lambda f: f[0] == "Eq" and {f[1], f[2]} == {C, ("arg", 1)}
    n_ok = 0
    ok_exit = ok_missing = ok_repeat = True
    seen_missing = seen_repeat = False
    for r in rets:
        rv = U(r.ret)
        if result_variant(rv) == "Ok":
            n_ok += 1
            ok_exit = ok_exit and any(src_eq(f) for f in r.facts)
        else:
            if not (is_err_value(r.ret) or result_variant(rv) == "Err"):
                ok_exit = False
            sel = [l for d, l, _ in r.conds if d[0] == "discr" and contains(U(d[1]), lambda q: q == entry)]
            if any(l == "None" or l == "Break" for l in sel):
                seen_missing = True
            calls = [U(v) for _, v in r.calls]
            if any(v[0] == "call" and v[1].startswith("std::collections::HashSet::<T, S, A>::insert") for v in calls):
                seen_repeat = True
    ctx.check(ok_exit and n_ok >= 1, "stop-at-source", "the loop's only normal exit is not `cursor == source`", b.where(h), detail="Ok only under cursor == source")
    ctx.check(seen_missing, "missing-entry=>Err", "a missing tree entry is not turned into an Err return", g.where(), detail="None => Err")
    ctx.check(seen_repeat, "repeated-edge-exit", "there is no Err exit after a failed visited.insert", b.where(h), detail="insert == false => Err")
    # reversed exactly once, and the returned vector is the pushed one
    revcalls = [c for c in b.calls() if c.callee and re.search(r"Iterator::rev$|slice::<impl \[T\]>::reverse$", c.callee) and c.bb not in loop[1]]
    inloop = [c for c in b.calls() if c.callee and re.search(r"Iterator::rev$|slice::<impl \[T\]>::reverse$", c.callee) and c.bb in loop[1]]
    ctx.check(len(revcalls) == 1 and not inloop, "reversed-once", "the collected edges are reversed %d times after the loop (expected exactly once, none inside)" % len(revcalls), b.where(), detail="rev()/reverse() x1")
    pushed = None
    for c in b.calls():
        if c.callee and c.callee.startswith("std::vec::Vec::<T, A>::push") and c.bb in loop[1]:
            pushed = unmut(tm.operand(c.args[0], c.bb))
    okr = pushed is not None and len(revcalls) == 1 and contains(tm.operand(revcalls[0].args[0], revcalls[0].bb), lambda q: unmut(q) == pushed)
    if okr:
        rt = tm.return_term()
        rv_t = tm.call_term(revcalls[0].term, revcalls[0].bb)
        # Ok(<the reversed vector>): either the rev() adaptor chain is returned or reverse() mutated the vector that is returned
        okr = contains(rt, lambda q: q == rv_t) or contains(rt, lambda q: unmut(q) == pushed)
    ctx.check(okr, "returns-the-collected-edges", "the vector that is reversed and returned is not the one the loop pushes into", b.where(), detail="Ok(reverse(route))")
    # edge oriented
    eb = F.need(astar.A + "backtrack::edge_oriented_route")
    ert = nosite(deep_strip(Terms(eb).return_term()))
    want = ("call", b.path, (("call", G + "src_vertex_id", (("arg", 4), ("arg", 1))), ("call", G + "dst_vertex_id", (("arg", 4), ("arg", 2))), ("arg", 3)))
    alts = set(ert[1]) if ert[0] == "phi" else {ert}
    ctx.check(want in alts, "edge-oriented-ends", "edge_oriented_route does not backtrack from dst(target edge) to src(source edge): %s" % short(ert)[:200], eb.where(), detail=short(want)[:120])


def _unmut_all(t):
    return rewrite(t, lambda x: unmut(x) if x[0] == "mut" else None)


def _edge_oriented(ctx, b, is_ksp):
    """shared checks for the two edge-oriented wrappers"""
    F = ctx.F
    tm = Terms(b)
    name = "ksp" if is_ksp else "a*"
    si = ("arg", 6) if is_ksp else ("arg", 5)
    graph = ("field", si, "directed_graph")
    e1s, e1d = ("call", G + "src_vertex_id", (graph, ("arg", 1))), ("call", G + "dst_vertex_id", (graph, ("arg", 1)))
    e2s, e2d = ("call", G + "src_vertex_id", (graph, ("arg", 2))), ("call", G + "dst_vertex_id", (graph, ("arg", 2)))
    inner = astar.A + ("search_algorithm::SearchAlgorithm::run_vertex_oriented" if is_ksp else "a_star::a_star_algorithm::run_a_star")
    subs = b.calls_to(inner)
    with_t = []
    for c in subs:
        args = [nosite(deep_strip(tm.operand(x, c.bb))) for x in c.args]
        off = 1 if is_ksp else 0
        src, dst = args[off], args[off + 1]
        if dst == ("agg", "std::option::Option", "None", ()):
            ctx.check(src == e1d, name + ":tree-search-start", "destination-less sub-search does not start at dst(origin edge): %s" % short(src), c.where(), detail=short(src))
        else:
            with_t.append(c)
            ok = src == e1d and dst == ("agg", "std::option::Option", "Some", (("0", e2s),))
            ctx.check(ok, name + ":sub-search-ends", "sub-search is not run from dst(origin edge) to src(destination edge): (%s, %s)" % (short(src), short(dst)), c.where(), detail="(dst(e1), Some(src(e2)))")
    ctx.check(len(with_t) == 1, name + ":sub-search-found", "expected one sub-search with a destination, found %d" % len(with_t), b.where())
    # guards
    eqs = {}
    for bb, dt, names, t in switches(b, tm):
        c = as_cmp(deep_strip(dt))
        if c and c[0] == "Eq":
            eqs[frozenset([nosite(c[1]), nosite(c[2])])] = (bb, t)
    same = frozenset([("arg", 1), ("arg", 2)])
    adj = frozenset([e1d, e2s])
    ctx.check(same in eqs, name + ":same-edge-guard", "no guard `source == target edge`", b.where())
    ctx.check(adj in eqs, name + ":adjacent-guard", "the adjacency shortcut is not guarded by dst(origin edge) == src(destination edge) (guards found: %s)" % [sorted(short(x) for x in k) for k in eqs], b.where(), detail="dst(e1) == src(e2)")
    # adjacent case: traversals and tree
    fts = b.calls_to(ET + "::forward_traversal")
    init = ("call", "routee_compass_core::model::state::state_model::StateModel::initial_state", (("field", si, "state_model"),))
    t1 = ("call", ET + "::forward_traversal", (("arg", 1), ("agg", "std::option::Option", "None", ()), init, si))
    t2 = ("call", ET + "::forward_traversal", (("arg", 2), ("agg", "std::option::Option", "Some", (("0", ("arg", 1)),)), ("field", t1, "result_state"), si))
    got = [nosite(strip_try(deep_strip(tm.call_term(c.term, c.bb)))) for c in fts]
    ctx.check(set(got) == {t1, t2}, name + ":adjacent-traversals", "adjacent case does not traverse origin edge (no predecessor, initial state) then destination edge (predecessor origin, origin's result state)", b.where(), detail="fwd(e1, None, init), fwd(e2, Some(e1), state1)")
    # tree of the adjacent case: {e2_dst: (e2_src, t2), e1_dst: (e1_src, t1)}
    froms = [c for c in b.calls() if c.callee and "HashMap" in c.callee and c.callee.endswith("::from") or (c.callee and "std::convert::From<[(K, V); N]>" in c.callee)]
    pairs = None
    for bb, blk in enumerate(b.blocks):
        for pos, s in enumerate(blk["stmts"]):
            if s["k"] == "assign" and s["rv"]["k"] == "agg" and s["rv"].get("agg") == "array" and len(s["rv"]["fields"]) == 2:
                t = nosite(deep_strip(tm.rvalue(s["rv"], bb, pos)))
                if all(x[0] == "tuple" and len(x[1]) == 2 and x[1][1][0] == "agg" and x[1][1][1] == BR for x in t[1]):
                    pairs = {x[1][0]: dict(x[1][1][3]) for x in t[1]}
                if all(x[0] == "call" or x[0] == "agg" for x in t[1]) and is_ksp and all(nosite(x) in (t1, t2) for x in t[1]):
                    ctx.check(list(t[1]) == [t1, t2], name + ":adjacent-route-order", "adjacent-case route is not [origin edge, destination edge]", b.where(bb), detail="[t(e1), t(e2)]")
    okt = pairs is not None and set(pairs) == {e1d, e2d} and pairs[e2d].get("terminal_vertex") == e2s and pairs[e2d].get("edge_traversal") == t2 and pairs[e1d].get("terminal_vertex") == e1s and pairs[e1d].get("edge_traversal") == t1
    ctx.check(okt, name + ":adjacent-tree", "adjacent-case tree is not {dst(e2): (parent src(e2), traversal of e2), dst(e1): (parent src(e1), traversal of e1)}: %s" % ({short(k): {n: short(v)[:50] for n, v in d.items()} for k, d in pairs.items()} if pairs else None), b.where())
    if not is_ksp and pairs is not None:
        # the adjacent-case tree {dst(e2): parent src(e2) = dst(e1), dst(e1): parent src(e1)} is a 2-cycle when dst(e2) == src(e1)
        # (origin a->b, destination b->a): edge_oriented_route then starts at its own stop vertex and returns an empty route
        ctx.check(frozenset([e1s, e2d]) in eqs, name + ":adjacent-round-trip-closes-a-cycle", "the adjacent-case tree is built whatever dst(destination edge) is: for origin a->b and destination b->a it is the cycle a -> b -> a and the backtrack from a to a returns an empty route as a success", b.where())
    return tm, (e1s, e1d, e2s, e2d), with_t


def R4_edge_oriented(ctx):
    """C01.R4 edge-oriented composition"""
    F = ctx.F
    ctx.rule("C01.R4", "edge-oriented wrappers: sub-search from dst(origin edge) to src(destination edge); shortcut only when those coincide; adjacent case = [origin, destination] with matching tree; every route gets the origin edge at position 0 and the destination edge appended; synthetic branches keyed (dst(e1), dst(e2)) with parents (src(e1), src(e2)); destination binding unconditional", floor=16)
    kb = F.need(astar.A + "search_algorithm::run_edge_oriented")
    tm, (e1s, e1d, e2s, e2d), subs = _edge_oriented(ctx, kb, True)
    # routes: insert(0, src_et) and push(dst_et) in a loop over all routes of the sub-result
    ins0 = [c for c in kb.calls() if c.callee and c.callee.startswith("std::vec::Vec::<T, A>::insert")]
    push = [c for c in kb.calls() if c.callee and c.callee.startswith("std::vec::Vec::<T, A>::push")]
    zero = ("item", astar.COST + "::ZERO")
    n_ok = 0
    for c in ins0:
        idx = deep_strip(tm.operand(c.args[1], c.bb))
        v = nosite(deep_strip(tm.operand(c.args[2], c.bb)))
        ok = idx == ("const", "usize", 0) and v[0] == "agg" and v[1] == ET and dict(v[3]).get("edge_id") == ("arg", 1) and innermost_loop(kb, c.bb) is not None
        ctx.check(ok, "ksp:origin-edge-first", "the origin edge is not inserted at position 0 of every route", c.where(), detail="route.insert(0, origin edge)")
        n_ok += ok
    ctx.check(len(ins0) == 2, "ksp:origin-edge-sites", "expected the origin edge to be prepended in both the tree-only and the routed case (found %d sites)" % len(ins0), kb.where())
    okp = len(push) == 1
    if okp:
        v = nosite(deep_strip(tm.operand(push[0].args[1], push[0].bb)))
        lp = innermost_loop(kb, push[0].bb)
        okp = v[0] == "agg" and v[1] == ET and dict(v[3]).get("edge_id") == ("arg", 2) and lp is not None
        if okp:
            # the loop ranges over all routes of the sub-result (iter_mut, no take/skip)
            recv = nosite(deep_strip(tm.operand(push[0].args[0], push[0].bb)))
            trunc = [x[1] for x in calls_in(recv) if re.search(r"Iterator>?::(take|skip|filter|step_by)$", x[1])]
            okp = not trunc and bool(calls_in(recv, "iter_mut"))
            st = dict(v[3]).get("result_state")
            okp = okp and bool(calls_in(st, "last"))
    ctx.check(okp, "ksp:destination-edge-last", "the destination edge (with the route's final state) is not appended to every route", kb.where(), detail="route.push(destination edge)")
    # ---- A* wrapper
    ab = F.need(astar.A + "a_star::a_star_algorithm::run_a_star_edge_oriented")
    tm2, (e1s, e1d, e2s, e2d), subs2 = _edge_oriented(ctx, ab, False)
    exts = [c for c in ab.calls() if c.callee and c.callee.endswith("::extend") and "HashMap" in (c.func.get("impl_self") or c.func.get("self_ty") or c.callee)]
    keys = {}
    for c in exts:
        v = nosite(deep_strip(tm2.operand(c.args[1], c.bb)))
        if v[0] == "array" and len(v[1]) == 1 and v[1][0][0] == "tuple":
            k, br = v[1][0][1]
            keys.setdefault(k, []).append((c, dict(br[3]) if br[0] == "agg" else {}))
    ctx.check(e1d in keys and all(d.get("terminal_vertex") == e1s and dict(d.get("edge_traversal", ("agg", "", "", ()))[3]).get("edge_id") == ("arg", 1) for _, d in keys.get(e1d, [])), "a*:origin-branch", "origin branch is not {dst(e1): parent src(e1), edge e1}", ab.where(), detail="tree[dst(e1)] = (src(e1), e1)")
    okd = e2d in keys and all(d.get("terminal_vertex") == e2s and dict(d.get("edge_traversal", ("agg", "", "", ()))[3]).get("edge_id") == ("arg", 2) for _, d in keys.get(e2d, []))
    ctx.check(okd, "a*:destination-branch", "destination branch is not {dst(e2): parent src(e2), edge e2}", ab.where(), detail="tree[dst(e2)] = (src(e2), e2)")
    # destination binding must not depend on what the search already labelled
    for c, d in keys.get(e2d, []):
        cond = None
        for bb, dt, names, t in switches(ab, tm2):
            dd = deep_strip(dt)
            neg = dd[0] == "un" and dd[1] == "Not"
            if neg:
                dd = dd[2]
            if dd[0] == "call" and dd[1].endswith("contains_key") and nosite(dd[2][1]) == e2d and bb in ab.dom.get(c.bb, ()):
                cond = bb
        ctx.check(cond is None, "run_a_star_edge_oriented:destination-binding-conditional", "the destination branch is inserted only `if !tree.contains_key(dst(e2))`: when the search already labelled dst(e2), backtracking from it follows the search's own branch and the route never traverses the destination edge", c.where())
    # origin binding must not close a cycle: the sub-search starts at dst(e1) and is free to label src(e1) (any two-way road:
    # dst(e1) -> .. -> src(e1)); tree[dst(e1)] = (parent src(e1)) then makes the parents of src(e1) lead back to src(e1), and
    # edge_oriented_route — which climbs until it meets src(e1) — stops at the *first* visit of src(e1) and returns a route
    # without the origin edge.  Necessary: the insert is decided on (or preceded by a removal of) the tree's entry for src(e1).
    for c, d in keys.get(e1d, []):
        handled = False
        for bb, dt, names, t in switches(ab, tm2):
            dd = deep_strip(dt)
            if dd[0] == "un" and dd[1] == "Not":
                dd = dd[2]
            if dd[0] == "call" and dd[1].endswith("contains_key") and nosite(dd[2][1]) == e1s and bb in ab.dom.get(c.bb, ()):
                handled = True
        for r_ in ab.calls():
            if r_.callee and re.search(r"HashMap::<K, V, S, A>::remove", r_.callee) and nosite(deep_strip(tm2.operand(r_.args[1], r_.bb))) == e1s and ab.dominates(r_.bb, c.bb):
                handled = True
        ctx.check(handled, "run_a_star_edge_oriented:origin-branch-closes-a-cycle", "tree[dst(e1)] = (parent src(e1), edge e1) is inserted whatever the sub-search (rooted at dst(e1)) labelled: when src(e1) is reachable from dst(e1) the tree has the cycle src(e1) -> .. -> dst(e1) -> src(e1), and when the best path passes through src(e1) (a trip that starts with a u-turn) the backtrack stops there and the route lacks the origin edge", c.where())


def R5_reorient(ctx, rid="C01.R5"):
    """C01.R5 reverse half is re-oriented"""
    F = ctx.F
    ctx.rule(rid, "reorient_reverse_route consumes the reverse route's edge ids in reversed order prefixed by the forward route's last edge id, re-traverses each consecutive pair forward with a state carried from the previous result (starting from the forward route's last state); single-via chains forward route then re-oriented route", floor=7)
    b = F.need(astar.A + "a_star::bidirectional_ops::reorient_reverse_route")
    tm = Terms(b)
    fts = b.calls_to(ET + "::forward_traversal")
    if len(fts) != 1:
        raise AnchorMissing("forward_traversal call in reorient_reverse_route")
    ft = fts[0]
    loop = innermost_loop(b, ft.bb)
    ctx.check(loop is not None, "loop", "re-traversal is not in a loop", ft.where())
    args = [nosite(deep_strip(tm.operand(x, ft.bb))) for x in ft.args]
    if loop is not None and not [c for c in b.calls() if (c.callee or "").endswith("tuple_windows")]:
        _reorient_carried_form(ctx, b, tm, ft, loop)
        _single_via_chain(ctx, b)
        return
    win = [c for c in calls_in(args[0]) if c[1].endswith("tuple_windows")]
    ctx.check(bool(win), "pairs:windows", "consecutive pairs are not taken with tuple_windows over the id list", ft.where())
    # next = pair.1, prev = pair.0 of the same window element
    nxt = [c for c in b.calls() if c.func.get("method") == "next" and loop and c.bb in loop[1]]
    okpair = False
    if nxt:
        item = nosite(deep_strip(tm.call_term(nxt[0].term, nxt[0].bb)))
        okpair = unmut(args[0]) == unmut(("field", item, "1")) and unmut(args[1]) == unmut(("field", item, "0"))
    ctx.check(okpair, "pairs:roles", "forward_traversal is not called with (next = window.1, previous = window.0): (%s, %s)" % (short(args[0])[:80], short(args[1])[:80]), ft.where(), detail="(w.1, w.0)")
    ctx.check(args[3] == ("arg", 3), "search-instance", "re-traversal does not use the caller's search instance", ft.where())
    # id list: rev() over rev_route ids, with the forward route's last edge id inserted at 0
    ins = [c for c in b.calls() if c.callee and c.callee.startswith("std::vec::Vec::<T, A>::insert")]
    oki = len(ins) == 1
    if oki:
        idx = deep_strip(tm.operand(ins[0].args[1], ins[0].bb))
        v = nosite(deep_strip(tm.operand(ins[0].args[2], ins[0].bb)))
        lst = ("call", "std::slice::<impl [T]>::last", (("arg", 1),))
        alts = set(v[1]) if v[0] == "phi" else {v}
        oki = idx == ("const", "usize", 0) and any(contains(x, lambda s: s == ("field", lst, "edge_id")) for x in alts)
        base = nosite(deep_strip(tm.operand(ins[0].args[0], ins[0].bb)))
        revs = [c for c in calls_in(base) if itm(c[1], "rev")]
        okr = len(revs) == 1 and contains(revs[0], lambda s: s == ("call", "std::slice::<impl [T]>::iter", (("arg", 2),)))
        ctx.check(okr, "ids:reversed", "the reverse route's edges are not consumed in reversed order (rev() over rev_route.iter())", ins[0].where(), detail="rev_route.iter().rev()")
    ctx.check(oki, "ids:prefixed-by-last-forward-edge", "the id list is not prefixed (insert at 0) with the forward route's last edge id", b.where(), detail="insert(0, fwd.last().edge_id)")
    # state: loop-carried from the traversal result, initialised from the forward route's last state
    st_op = ft.args[2]
    st = tm.operand(st_op, ft.bb)
    stn = nosite(deep_strip(st))
    alts = set(stn[1]) if stn[0] == "phi" else {stn}
    has_init = any(contains(x, lambda s: s == ("field", ("call", "std::slice::<impl [T]>::last", (("arg", 1),)), "result_state")) for x in alts)
    has_carry = any(contains(x, lambda s: s[0] == "loop") or contains(x, lambda s: s[0] == "field" and s[2] == "result_state" and contains(s[1], lambda q: q[0] == "call" and q[1] == ET + "::forward_traversal")) for x in alts)
    ctx.check(has_init, "state:starts-from-forward-half", "the first re-traversal does not start from the forward route's final state: %s" % short(stn)[:200], ft.where())
    ctx.check(has_carry, "state:carried", "the accumulated state is not updated from each traversal's result (stale state): %s" % short(stn)[:200], ft.where())
    # every re-traversed edge is pushed once
    pushes = [c for c in b.calls() if c.callee and c.callee.startswith("std::vec::Vec::<T, A>::push") and loop and c.bb in loop[1]]
    okp = len(pushes) == 1
    if okp:
        pv = nosite(strip_try(deep_strip(tm.operand(pushes[0].args[1], pushes[0].bb))))
        okp = pv[0] == "call" and pv[1] == ET + "::forward_traversal" and pv[2][:2] == tuple(args[:2])
    ctx.check(okp, "push-each", "each re-traversed edge is not pushed exactly once to the result", b.where())
    _single_via_chain(ctx, b)


def _single_via_chain(ctx, b):
    F = ctx.F
    # single via: chain(fwd, reoriented)
    sb = F.need(astar.A + "ksp::single_via_paths_algorithm::run")
    stm = Terms(sb)
    ch = [c for c in sb.calls() if c.callee and itm(c.callee, "chain")]
    okc = len(ch) == 1
    if okc:
        a0 = nosite(deep_strip(stm.operand(ch[0].args[0], ch[0].bb)))
        a1 = nosite(deep_strip(stm.operand(ch[0].args[1], ch[0].bb)))
        ro = calls_in(a1, b.path)
        okc = len(ro) == 1 and not calls_in(a0, b.path) and contains(a0, lambda s: s == ro[0][2][0])
    ctx.check(okc, "single-via:chain-order", "single-via does not chain the forward route followed by the re-oriented reverse route built from it", sb.where(), detail="fwd_route.chain(reoriented)")


def _reorient_carried_form(ctx, b, tm, ft, loop):
    """the same mechanism written with a running predecessor: for e in rev_route.iter().rev(): t = forward_traversal(e.edge_id,
    prev, state); state = t.result_state; prev = Some(e.edge_id); push(t) — with prev/state starting from the forward route's last edge"""
    F = ctx.F
    U = lambda t: _unmut_all(nosite(deep_strip(t)))
    h = loop[0]
    rows = iteration_table(b, h)
    backs = [r for r in rows if r.kind == "back"]
    if not ctx.check(bool(backs), "loop-turn", "no complete loop turn found", ft.where()):
        return
    lst = ("call", "std::slice::<impl [T]>::last", (("arg", 1),))
    ok_iter = ok_roles = ok_prev = ok_state = ok_push = True
    pcar = scar = None
    for r in backs:
        fts_ = [U(v) for _, k, v in r.sites if k == ET + "::forward_traversal"]
        nxs = [U(v) for _, k, v in r.sites if k and itm(k, "next")]
        if len(fts_) != 1 or len(nxs) != 1:
            ok_roles = False
            continue
        a = fts_[0][2]
        N = nxs[0]
        recv = N[2][0]
        revs = [c for c in calls_in(recv) if itm(c[1], "rev")]
        ok_iter = ok_iter and len(revs) == 1 and contains(revs[0], lambda q: q == ("call", "std::slice::<impl [T]>::iter", (("arg", 2),))) and not [c for c in calls_in(recv) if re.search(r"Iterator>?::(skip|take|step_by|filter|chain|zip)$", c[1])]
        # the id handed over as `next`: the element's edge_id (directly, or through a map closure returning .edge_id)
        maps = [c for c in calls_in(recv) if itm(c[1], "map")]
        if maps:
            cl = maps[0][2][1]
            okm = cl[0] == "closure" and U(Terms(F.need(cl[1])).return_term()) in (("field", ("arg", 2), "edge_id"),)
            nid = N if okm else None
        else:
            nid = ("field", N, "edge_id")
        ok_roles = ok_roles and nid is not None and a[0] == nid and a[1][0] == "carried" and a[3] == ("arg", 3)
        if a[1][0] == "carried":
            pcar = a[1][1]
            ok_prev = ok_prev and U(r.new(pcar)) == ("agg", "std::option::Option", "Some", (("0", nid),))
        st = a[2]
        if st[0] == "carried":
            scar = st[1]
            ok_state = ok_state and U(r.new(scar)) == ("field", fts_[0], "result_state")
        else:
            ok_state = False
        pushes = [U(v) for _, k, v in r.sites if (k or "").startswith("std::vec::Vec::<T, A>::push")]
        ok_push = ok_push and len(pushes) == 1 and pushes[0][2][1] == fts_[0]
    ctx.check(ok_iter, "ids:reversed", "the reverse route's edges are not consumed in reversed order (rev() over rev_route.iter(), nothing skipped)", ft.where(), detail="rev_route.iter().rev()")
    ctx.check(ok_roles, "pairs:roles", "forward_traversal is not called with (next = this element's edge id, previous = the running predecessor, si)", ft.where(), detail="(e.edge_id, prev, state, si)")
    ctx.check(ok_prev and pcar is not None, "pairs:predecessor-advances", "the running predecessor is not set to Some(this edge id) after each re-traversal", ft.where(), detail="prev = Some(e.edge_id)")
    ctx.check(ok_state and scar is not None, "state:carried", "the accumulated state is not updated from each traversal's result (stale state)", ft.where(), detail="state = t.result_state")
    ctx.check(ok_push, "push-each", "each re-traversed edge is not pushed exactly once to the result", b.where(), detail="result.push(t)")
    if pcar is not None:
        p0 = U(loop_entry_value(b, h, pcar))
        alts = set(p0[1]) if p0[0] == "phi" else {p0}
        okp0 = any(x == ("agg", "std::option::Option", "Some", (("0", ("field", lst, "edge_id")),)) for x in alts) and all(x == ("agg", "std::option::Option", "None", ()) or contains(x, lambda q: q == ("field", lst, "edge_id")) for x in alts)
        if not okp0 and len(alts) == 1:
            # `fwd.last().map(|e| e.edge_id)`: Some(last.edge_id) exactly when there is a last edge (payload convention)
            okp0 = norm_adaptors(F, list(alts)[0]) == ("field", lst, "edge_id")
        ctx.check(okp0, "ids:prefixed-by-last-forward-edge", "the first re-traversal does not have the forward route's last edge as its predecessor: %s" % short(p0)[:160], b.where(), detail="prev0 = fwd.last().map(edge_id)")
    if scar is not None:
        s0 = U(loop_entry_value(b, h, scar))
        alts = set(s0[1]) if s0[0] == "phi" else {s0}
        ctx.check(any(contains(x, lambda q: q == ("field", lst, "result_state")) for x in alts), "state:starts-from-forward-half", "the first re-traversal does not start from the forward route's final state: %s" % short(s0)[:160], ft.where(), detail="state0 = fwd.last().result_state")
    # what is returned is the vector pushed into
    oks = [r for r in rows if r.kind == "return" and result_variant(U(r.ret)) == "Ok"]
    ctx.check(bool(oks), "returns-result", "no Ok return after the loop", b.where())


def loop_test_rule(ctx, rid):
    """route_contains_loop = the source vertices of the route's edges are not all distinct"""
    F = ctx.F
    ctx.rule(rid, "route_contains_loop compares the number of *distinct* source vertices (set semantics: unique()/HashSet) of all route edges with their total number, `distinct < all`", floor=3)
    b = F.need(astar.A + "a_star::bidirectional_ops::route_contains_loop")
    loops = b.natural_loops()
    if _loop_test_insert_all_form(ctx, F, b):
        return
    if loops:
        _loop_test_set_form(ctx, b, loops)
        return
    rows = [r for r in table(b) if r.end == "return" and result_variant(r.ret) == "Ok"]
    ctx.check(len(rows) == 1, "paths", "expected one Ok path, found %d" % len(rows), b.where())
    if not rows:
        return
    v = agg_payload(rows[0].ret)
    c = as_cmp(v)
    if not c:
        ctx.bad("comparison", "result is not a comparison of two counts: %s" % short(v)[:200], b.where())
        return
    c = canon_cmp(c)
    small, big = c[1], c[2]
    srcs = [x for x in calls_in(big) if itm(x[1], "map")]
    oka = c[0] == "Lt" and len(srcs) == 1 and srcs[0][2][0] == ("call", "std::slice::<impl [T]>::iter", (("arg", 1),))
    if oka:
        cb = F.need(srcs[0][2][1][1])
        crt = nosite(deep_strip(Terms(cb).return_term()))
        oka = crt[0] == "call" and crt[1] == G + "src_vertex_id" and crt[2][1] == ("field", ("arg", 2), "edge_id")
    ctx.check(oka, "all-source-vertices", "the reference count is not the number of source vertices of all route edges (strictly greater than the distinct count)", b.where(), detail="distinct < len(src vertices of route)")
    names = [x[1] for x in calls_in(small)]
    setlike = [n for n in names if re.search(r"Itertools::unique$|HashSet|BTreeSet|Itertools::unique_by$", n)]
    weak = [n for n in names if re.search(r"dedup|Itertools::dedup", n)]
    ctx.check(bool(setlike) and not weak, "distinct-count", "the smaller count is not a set-semantics distinct count (found %s): consecutive-only de-duplication misses loops" % [n.split("::")[-1] for n in names][:6], b.where(), detail=[n.split("::")[-1] for n in setlike])
    same = contains(small, lambda s: s == srcs[0]) if srcs else False
    ctx.check(same, "same-vertices", "distinct count is not taken over the same source-vertex list", b.where())


def _loop_test_insert_all_form(ctx, F, b):
    """Ok(!vertices.all(|v| seen.insert(v))) / Ok(vertices.any(|v| !seen.insert(v))): a loop exists iff some insert finds its
    vertex already present.  False when this shape is not used."""
    tm = Terms(b)
    found = None
    for x in subterms(nosite(tm.return_term())):
        if x[0] == "call" and (itm(x[1], "all") or itm(x[1], "any")) and len(x[2]) == 2:
            cl = x[2][1]
            while cl[0] in ("mut", "ref"):
                cl = cl[1]
            if cl[0] == "closure" and cl[1] in F.bodies:
                crt = clean(Terms(F.bodies[cl[1]]).return_term())
                neg = False
                while crt[0] == "un" and crt[1] == "Not":
                    crt, neg = crt[2], not neg
                if crt[0] == "call" and re.search(r"(HashSet|BTreeSet)::<.*>::insert$", crt[1].split("{")[0]) and crt[2][1] == ("arg", 2):
                    found = (x, neg, itm(x[1], "all"))
    if found is None:
        return False
    x, neg, is_all = found
    # the verdict: Ok(!all(insert)) or Ok(any(!insert))
    rt = clean(tm.return_term())
    alts = [a for a in (rt[1] if rt[0] == "phi" else (rt,)) if result_variant(a) == "Ok"]
    okv = len(alts) == 1
    if okv:
        v = agg_payload(alts[0])
        outer_neg = False
        while v[0] == "un" and v[1] == "Not":
            v, outer_neg = v[2], not outer_neg
        okv = v == clean(x) and ((is_all and not neg and outer_neg) or (not is_all and neg and not outer_neg))
    ctx.check(okv, "distinct-count", "the result is not `some insert into the set found its vertex already present` (!all(insert) / any(!insert))", b.where(), detail="!all(|v| seen.insert(v))")
    seq = sequence_form(F, b, x[2][0])
    G_SRC = G + "src_vertex_id"
    oks = seq is not None and seq[1] == {("len", ("arg", 1))} and seq[0][0] == "call" and seq[0][1] == G_SRC and seq[0][2][1] == ("field", ("at", ("arg", 1), ("i",)), "edge_id")
    ctx.check(oks, "all-source-vertices", "the vertices tested are not the source vertices of all route edges, one per edge: %s" % (short(seq[0])[:120] if seq else None), b.where(), detail="src_vertex_id(route[i].edge_id) for every i")
    ctx.check(okv and oks, "same-vertices", "distinct test is not taken over the source-vertex list", b.where())
    return True


def _loop_test_set_form(ctx, b, loops):
    """for e in route { set.insert(src_vertex_id(e.edge_id)?) }; Ok(set.len() < route.len())"""
    U = lambda t: _unmut_all(nosite(deep_strip(t)))
    h = loops[0][0]
    rows = iteration_table(b, h)
    backs = [r for r in rows if r.kind == "back"]
    ok = bool(backs)
    setterm = None
    for r in backs:
        nxs = [U(v) for _, k, v in r.sites if k and itm(k, "next")]
        ins = [(v, U(v)) for _, k, v in r.sites if (k or "").startswith("std::collections::HashSet::<T, S, A>::insert") or (k or "").startswith("std::collections::BTreeSet")]
        if len(nxs) != 1 or len(ins) != 1:
            ok = False
            continue
        N = nxs[0]
        ok = ok and contains(N, lambda q: q == ("call", "std::slice::<impl [T]>::iter", (("arg", 1),))) and not [c for c in calls_in(N) if re.search(r"Iterator>?::(skip|take|step_by|filter)$", c[1])]
        v = ins[0][1][2][1]
        ok = ok and v[0] == "call" and v[1] == G + "src_vertex_id" and v[2][1] == ("field", N, "edge_id")
        setterm = ins[0][1][2][0]
    ctx.check(ok, "all-source-vertices", "every route edge's source vertex is not inserted into the set (one insert of src_vertex_id(e.edge_id) per edge, no edge skipped)", b.where(), detail="for e in route: set.insert(src(e))")
    rets = [r for r in rows if r.kind == "return" and result_variant(U(r.ret)) == "Ok"]
    okc = bool(rets)
    for r in rets:
        c = as_cmp(agg_payload(U(r.ret)))
        if not c:
            okc = False
            continue
        c = canon_cmp(c)
        small, big = c[1], c[2]
        okc = okc and c[0] == "Lt" and small[0] == "call" and re.search(r"(HashSet|BTreeSet)::<.*>::len$", small[1]) is not None and big == ("call", "std::slice::<impl [T]>::len", (("arg", 1),))
    ctx.check(okc, "distinct-count", "the result is not `set.len() < route.len()` (set semantics)", b.where(), detail="HashSet len < route len")
    ctx.check(okc and ok, "same-vertices", "distinct count is not taken over the same source-vertex list", b.where())


def R6_loop_test(ctx):
    """C01.R6 loop test used for stitched routes"""
    loop_test_rule(ctx, "C01.R6")


def R7_single_via_acceptance(ctx):
    """C01.R7 = C13.R2: a single-via candidate is pushed only when the loop test (R6) and the other acceptance tests passed"""
    from props.C13 import R2_single_via
    R2_single_via(ctx)


def R8_yens_candidate(ctx):
    """C01.R8 a route returned by Yen's algorithm reaches the destination: candidates end with the found spur route"""
    from props.C13 import spur_route_rule
    spur_route_rule(ctx, "C01.R8")


def R9_ksp_endpoints(ctx):
    """C01.R9 = C13.R4: the k-shortest-paths algorithms search between the endpoints they were given (KspQuery carries source
    and target unchanged; only k may come from the query) — the edge-oriented wrapper and Yen's spur searches compose their
    routes around exactly those endpoints"""
    from props.C13 import R4_criteria
    R4_criteria(ctx)


def R10_origin_label(ctx):
    """"following parents reaches the search origin": the origin never gets a branch of its own because its label is 0 from the start
    and a label is replaced only by a strictly smaller one (shared with C02.R1; round 7: the initial g-score insert removed and the
    origin special-cased at the read — an edge back into the origin was then relaxed against INFINITY and recorded as the origin's parent)"""
    from props.C02 import R1_relaxation
    R1_relaxation(ctx)


RULES = [R1_tree_update, R2_direction, R3_backtrack, R4_edge_oriented, R5_reorient, R6_loop_test, R7_single_via_acceptance, R8_yens_candidate, R9_ksp_endpoints, R10_origin_label]
