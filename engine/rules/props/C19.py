"""C19 — the output file holds one intact record per response under any parallelism."""
from core import *

EXPLANATION = (
    "C19: the schedule quantifier is attacked by structure instead of exploring interleavings: only the sink (and the header writer) write "
    "files; a response is written as one whole-row write that is dominated by a blocking lock of that sink's own file mutex with the row "
    "formatted beforehand, the counter/flush under the same guards, I/O errors returned; every response reaches the sink exactly once in "
    "both persistence policies and for input-processing failures; the header is written only when the file does not exist, header and rows "
    "use the same ordering adaptor per `sorted` branch, JSON rows are compact one-line serialisations; writing never replaces a key of the "
    "caller's response unless it is absent; the lock-order graph is acyclic. Not decided: cross-process appends, disk-full behaviour, "
    "comma-bearing CSV cells (runtime values)."
)

R = "routee_compass::app::compass::response::"
SINK = R + "response_sink::ResponseSink"
FMT = R + "response_output_format::ResponseOutputFormat"
APP = "routee_compass::app::compass::compass_app::"
FILE_WRITE = re.compile(r"(std::io::Write::(write|write_all|write_fmt|flush)$|<std::fs::File as std::io::Write>::(write|write_all|write_fmt|flush)$|^std::fs::write$|std::io::Write>::(write|write_all|write_fmt|flush)$)")


def R1_who_may_write(ctx):
    """C19.R1 who may write the file"""
    F = ctx.F
    ctx.rule("C19.R1", "file writes reachable from CompassApp::run are confined to ResponseSink::write_response/close and write_mode::write_header (plus the audited cfg(debug_assertions) flamegraph dump of run_a_star, which writes a different file)", floor=3)
    reach = F.reachable_from([APP + "CompassApp::run"])
    allowed = {SINK + "::write_response": "sink", SINK + "::close": "sink", R + "write_mode::write_header": "header"}
    audited = {"routee_compass_core::algorithm::search::a_star::a_star_algorithm::run_a_star": "cfg(debug_assertions) flamegraph dump into target/flamegraph (not the response file)"}
    n = 0
    for p in sorted(reach):
        b = F.bodies[p]
        for c in b.calls():
            if c.callee and FILE_WRITE.search(c.callee):
                root = b.raw.get("parent") or p
                # stderr/stdout/fmt writers are not files: look at the receiver type
                recv_ty = c.args[0].get("ty", "") if c.args else ""
                if "Formatter" in recv_ty or "Stderr" in recv_ty or "Stdout" in recv_ty or "String" in recv_ty and "File" not in recv_ty:
                    continue
                n += 1
                if root in allowed:
                    ctx.ok("%s:%s" % (short_fn_name(root), c.callee.split("::")[-1]), allowed[root])
                elif root in audited:
                    ctx.ok("%s:%s" % (short_fn_name(root), c.callee.split("::")[-1]), "audited: " + audited[root])
                else:
                    ctx.bad("%s:%s" % (short_fn_name(root), c.callee.split("::")[-1]), "a file write outside the response sink is reachable from CompassApp::run (receiver %s)" % recv_ty, c.where())
    ctx.check(n >= 3, "matcher-live", "the file-write matcher found only %d sites (expected the sink's writes); the rule would pass vacuously" % n, None)


def _rust_bytes(lit):
    """the bytes of a Rust byte-string literal as the extractor prints it (b"\\xc0\\x01\\n\\x00")"""
    m = re.match(r'^b"(.*)"$', lit, re.S)
    if not m:
        return None
    body = m.group(1)
    out = bytearray()
    i = 0
    esc = {"n": 10, "r": 13, "t": 9, "\\": 92, '"': 34, "'": 39, "0": 0}
    while i < len(body):
        ch = body[i]
        if ch == "\\" and i + 1 < len(body):
            nx = body[i + 1]
            if nx == "x":
                out.append(int(body[i + 2:i + 4], 16)); i += 4
            elif nx in esc:
                out.append(esc[nx]); i += 2
            else:
                return None
        else:
            out.extend(ch.encode("utf-8")); i += 1
    return bytes(out)


def fmt_template_items(data):
    """[("arg", options) | ("lit", text)] of the `fmt::Arguments::new(template, args)` that `data` is, or None.
    Template encoding of this toolchain (core::fmt::Arguments): 0 = end; 1..=0x7f = literal of that many bytes; 0x80 = literal
    with a u16 length; >= 0xc0 = the next argument, the low bits saying which of flags/width/precision/index follow."""
    t = data
    if not (t[0] == "call" and re.search(r"fmt::Arguments(::<[^>]*>)?::new$", t[1]) and len(t[2]) == 2 and t[2][0][0] == "const"):
        return None
    raw = _rust_bytes(t[2][0][2])
    if raw is None:
        return None
    items = []
    i = 0
    while i < len(raw):
        b0 = raw[i]
        if b0 == 0:
            return items if i == len(raw) - 1 else None
        if b0 < 0x80:
            items.append(("lit", raw[i + 1:i + 1 + b0].decode("utf-8", "replace"))); i += 1 + b0
        elif b0 == 0x80:
            n = raw[i + 1] | (raw[i + 2] << 8)
            items.append(("lit", raw[i + 3:i + 3 + n].decode("utf-8", "replace"))); i += 3 + n
        elif b0 >= 0xc0:
            opts = b0 & 0x3f
            i += 1
            extra = (4 if opts & 1 else 0) + (2 if opts & 2 else 0) + (2 if opts & 4 else 0) + (2 if opts & 8 else 0)
            items.append(("arg", raw[i:i + extra])); i += extra
        else:
            return None
    return None


def fmt_template_args(data):
    a = data[2][1]
    if a[0] == "array":
        return [x[2][0] if x[0] == "call" and len(x[2]) == 1 else x for x in a[1]]
    return None


def R2_locked_row(ctx):
    """C19.R2 one locked, whole-row write per response"""
    F = ctx.F
    ctx.rule("C19.R2", "write_response (File): the row is produced by one format_response(response) call, then exactly one write_fmt on the guard of a blocking Mutex::lock of this sink's own `file`; counter increment and flush test under the guards; I/O errors returned; Combined forwards to every inner sink", floor=9)
    b = F.need(SINK + "::write_response")
    tm = Terms(b)
    filef = ("field", ("variant", ("arg", 1), "File"), "file")
    itf = ("field", ("variant", ("arg", 1), "File"), "iterations")
    locks = [c for c in b.calls() if c.callee and re.search(r"std::sync::Mutex::<T>::(lock|try_lock)$", c.callee)]
    flock = [c for c in locks if unmut(nosite(deep_strip(tm.operand(c.args[0], c.bb)))) == filef]
    ilock = [c for c in locks if unmut(nosite(deep_strip(tm.operand(c.args[0], c.bb)))) == itf]
    ctx.check(len(flock) == 1 and flock[0].callee.endswith("::lock"), "file-lock:blocking", "the file mutex is not taken with a blocking lock() exactly once (found %s): a try_lock drops rows under contention" % [c.callee.split("::")[-1] for c in flock], b.where(), detail="file.lock()")
    ctx.check(len(ilock) == 1 and ilock[0].callee.endswith("::lock"), "counter-lock:blocking", "the iteration counter is not locked with lock()", b.where())
    writes = [c for c in b.calls() if c.callee and FILE_WRITE.search(c.callee) and not c.callee.endswith("flush")]
    ctx.check(len(writes) == 1, "one-write", "expected exactly one row write per call, found %d (a row written in pieces can interleave with another)" % len(writes), b.where(), detail="1 x write_fmt")
    fr = b.calls_to(FMT + "::format_response")
    ctx.check(len(fr) == 1, "one-format", "expected exactly one format_response call, found %d" % len(fr), b.where())
    if len(flock) != 1 or len(writes) != 1 or len(fr) != 1:
        return
    w, lk, fm = writes[0], flock[0], fr[0]
    guard = unmut(nosite(strip_try(deep_strip(tm.call_term(lk.term, lk.bb)))))
    recv = unmut(nosite(deep_strip(tm.operand(w.args[0], w.bb))))
    ctx.check(recv == guard and b.dominates(lk.bb, w.bb), "write-under-own-lock", "the row is not written through the guard of this sink's file mutex (receiver %s)" % short(recv)[:100], w.where(), detail="write_fmt(file.lock(), row)")
    # no write can happen when the lock failed: lock Err is propagated
    ef = error_flow(F, b, lk, tm)
    ctx.check(ef["ok"], "lock-error-returned", "a failed lock does not return an Err: %s" % ef["detail"], lk.where(), detail=ef["detail"])
    row = nosite(strip_try(deep_strip(tm.call_term(fm.term, fm.bb))))
    data = nosite(deep_strip(tm.operand(w.args[1], w.bb)))
    ctx.check(contains(data, lambda s: s == row) and b.dominates(fm.bb, w.bb), "whole-row-formatted-first", "the written data is not the complete row returned by format_response (computed before the write)", w.where(), detail="row = format_response(response); writeln!(file, row)")
    ctx.check(nosite(deep_strip(tm.operand(fm.args[1], fm.bb))) == ("arg", 2) and unmut(nosite(deep_strip(tm.operand(fm.args[0], fm.bb)))) == ("field", ("variant", ("arg", 1), "File"), "format"), "format-args", "the row is not format.format_response(response) of this sink's format", fm.where())
    # the record is terminated inside the same write: what is written is <row> followed by a line break and nothing else. The
    # file is opened in append mode and outlives the sink (a second run, a second process), so a separator written *before* the
    # next row (or only by close()) leaves the last record of every run unterminated and glues the first record of the next
    # run onto it (round 6).  Read from the format template of the one write_fmt: [placeholder(row), literal ending in "\n"].
    items = fmt_template_items(data)
    okt = False
    shape = "the written data is not a format template"
    if items is not None:
        shape = " ".join("{}" if k == "arg" else repr(v) for k, v in items)
        okt = len(items) == 2 and items[0][0] == "arg" and items[1][0] == "lit" and items[1][1] in ("\n", "\r\n")
        if okt:
            a0 = fmt_template_args(data)
            okt = a0 is not None and len(a0) == 1 and contains(a0[0], lambda s_: s_ == row)
    ctx.check(okt, "record-terminated-in-the-same-write", "the one write of a record is not `<row>\\n` (template: %s): a record that is not terminated by its own write is glued to whatever is appended next" % shape, w.where(), detail='writeln!(file, "{}", row)')
    ef = error_flow(F, b, w, tm)
    ctx.check(ef["ok"], "io-error-returned", "an I/O error of the row write is not returned: %s" % ef["detail"], w.where(), detail=ef["detail"])
    ef = error_flow(F, b, fm, tm)
    ctx.check(ef["ok"], "format-error-returned", "a formatting error is not returned", fm.where())
    # not in a loop (one row per call) and on every Ok path of the File arm
    ctx.check(innermost_loop(b, w.bb) is None, "write-not-in-loop", "the row write is inside a loop", w.where())
    fl = [c for c in b.calls() if c.callee and c.callee.endswith("flush")]
    ctx.check(len(fl) == 1 and b.dominates(lk.bb, fl[0].bb) and unmut(nosite(deep_strip(tm.operand(fl[0].args[0], fl[0].bb)))) == guard, "flush-under-lock", "flush is not performed through the same guard", b.where())
    # every Ok return of the File arm passes the write
    sel = None
    for sbb, dt, names, t in switches(b, tm):
        if deep_strip(dt) == ("discr", ("arg", 1)) and names:
            sel = (sbb, switch_target(t, names, "File"))
    oka = sel is not None
    if oka:
        ok_blocks = [bb for bb, blk in enumerate(b.blocks) for st in blk["stmts"] if st["k"] == "assign" and st["place"]["l"] == 0 and not st["place"]["p"] and st["rv"]["k"] == "agg" and st["rv"].get("variant") == "Ok"]
        arm = b.reachable(start=sel[1])
        wo = b.reachable(start=sel[1], removed_blocks=[w.bb])
        oka = all(bb not in wo for bb in ok_blocks if bb in arm) and any(bb in arm for bb in ok_blocks)
        if not any(bb in arm for bb in ok_blocks):
            # the Ok value may come out of a helper (`flush_if_due(..)` returned as it is): read the File arm's paths instead —
            # every path that returns without being an Err value ran the write
            try:
                rows_ = [r for r in table(b, max_paths=50000) if r.end == "return" and r.sel.get(("arg", 1)) == "File" and not is_err_value(r.ret)]
                oka = bool(rows_) and all(w.bb in r.path.blocks for r in rows_)
            except TooManyPaths:
                oka = False
    ctx.check(oka, "ok=>written", "the File arm can return Ok(()) without having written the row", b.where())
    # Combined forwards to all
    # (a loop over the inner sinks with `?`, or try_for_each over them)
    COMB = ("field", ("variant", ("arg", 1), "Combined"), "0")
    TRUNC = r"Iterator>?::(take|skip|filter|step_by|take_while|skip_while|filter_map|rev)$"
    okc = False
    for body in tree_of(F, b.path):
        rec = body.calls_to(SINK + "::write_response")
        if len(rec) != 1:
            continue
        btm = tm if body is b else Terms(body)
        a0 = clean(btm.operand(rec[0].args[0], rec[0].bb))
        a1 = clean(btm.operand(rec[0].args[1], rec[0].bb))
        if body is b:
            okc = innermost_loop(b, rec[0].bb) is not None and contains(a0, lambda q: q == COMB) and re.search(r"::next$", a0[1] if a0[0] == "call" else "") is not None and not [x for x in calls_in(a0) if re.search(TRUNC, x[1])] and a1 == ("arg", 2)
            okc = okc and error_flow(F, b, rec[0], tm)["ok"]
        else:
            tf = [c for c in b.calls() if c.callee and itm(c.callee, "try_for_each") and tm.operand(c.args[1], c.bb)[0] == "closure" and tm.operand(c.args[1], c.bb)[1] == body.path]
            if len(tf) != 1 or body.natural_loops():
                continue
            cl = tm.operand(tf[0].args[1], tf[0].bb)
            caps = [clean(x) for x in cl[2]]
            a1 = rewrite(a1, lambda y: caps[int(y[2])] if y[0] == "field" and y[1] == ("arg", 1) and str(y[2]).isdigit() and int(y[2]) < len(caps) else None)
            recv = clean(tm.operand(tf[0].args[0], tf[0].bb))
            okc = a0 == ("arg", 2) and a1 == ("arg", 2) and contains(recv, lambda q: q == COMB) and not [x for x in calls_in(recv) if re.search(TRUNC, x[1])]
            okc = okc and try_propagation(body, rec[0])["kind"] in ("propagated", "returned") and try_propagation(b, tf[0], tm)["kind"] in ("propagated", "returned")
        break
    ctx.check(okc, "combined-forwards-to-all", "Combined does not forward the response to every inner sink (propagating errors)", b.where())


def R3_every_response_once(ctx):
    """C19.R3 every response reaches the sink exactly once"""
    F = ctx.F
    ctx.rule("C19.R3", "run_batch_with_responses and run_batch_without_responses pass each run_single_query result to exactly one write_response call; CompassApp::run writes every input-processing error response", floor=5)
    for fn in ("run_batch_with_responses", "run_batch_without_responses"):
        root = F.need(APP + fn)
        found = []
        for p, b in sorted(F.bodies.items()):
            if not p.startswith(root.path + "::{closure"):
                continue
            tm = Terms(b)
            # (calls made inside a new helper extracted from the closure are seen at the helper's call site)
            ws = [c for c in b.calls_deep() if c.callee == SINK + "::write_response"]
            rs = [c for c in b.calls_deep() if c.callee == APP + "run_single_query"]
            if not ws and not rs:
                continue
            found.append(p)
            ok = len(ws) == 1 and len(rs) == 1
            if ok:
                w, r_ = ws[0], rs[0]
                resp = clean(tm.call_term(r_.term, r_.bb))
                arg = clean(tm.operand(w.args[1], w.bb))
                if isinstance(w, VirtualCallSite) and isinstance(r_, VirtualCallSite) and w.via is r_.via:
                    ib = w.inner.body
                    order = ib.dominates(r_.inner.bb, w.inner.bb) and innermost_loop(ib, w.inner.bb) is None
                elif not isinstance(w, VirtualCallSite) and not isinstance(r_, VirtualCallSite):
                    order = b.dominates(r_.bb, w.bb)
                else:
                    order = b.dominates(r_.bb, w.bb) and r_.bb != w.bb
                ok = arg == resp and order
                lp = innermost_loop(b, w.bb)
                qarg = clean(tm.operand(r_.args[0], r_.bb))
                if lp is None:
                    # the closure runs once per query of the batch: its query argument is the element
                    ok = ok and qarg[0] in ("arg", "field")
                else:
                    # a loop over the queries of the chunk: one run and one write on every turn, the query is the loop element
                    rows_ = [x for x in iteration_table(b, lp[0], stop_at_exit=True) if x.kind != "diverge"]
                    d0 = clean(rows_[0].conds[0][0]) if rows_ and rows_[0].conds else None
                    okl = d0 is not None and d0[0] == "discr" and d0[1][0] == "call" and re.search(r"::next$", d0[1][1]) is not None and qarg == d0[1]
                    okl = okl and not [x for x in calls_in(d0[1]) if re.search(r"Iterator>?::(take|skip|filter|step_by|take_while|skip_while|filter_map|rev)$", x[1])]
                    via_w = w.via if isinstance(w, VirtualCallSite) else w
                    via_r = r_.via if isinstance(r_, VirtualCallSite) else r_
                    for x in rows_:
                        # (a turn on which run_single_query itself fails has no response to write — it never does, C06.R5)
                        failed_run = any(clean(dt_)[0] == "discr" and contains(clean(dt_), lambda q_: q_ == resp) and (l_ in ("Break", "Err")) for dt_, l_, _ in x.conds)
                        if x.kind == "back" and not failed_run:
                            okl = okl and sum(1 for bb_, k_, v_ in x.sites if bb_ == via_w.bb) >= 1 and sum(1 for bb_, k_, v_ in x.sites if bb_ == via_r.bb) >= 1 and len([1 for bb_, k_, v_ in x.sites if k_ == via_w.callee]) == 1 and len([1 for bb_, k_, v_ in x.sites if k_ == via_r.callee]) == 1
                    okl = okl and innermost_loop(b, via_r.bb) == lp and outermost_loop(b, w.bb) == lp
                    ok = ok and okl
            ctx.check(ok, "%s:write-each-response" % fn, "a query's response is not handed to write_response exactly once", b.where(), detail="write_response(run_single_query(q))")
        ctx.check(len(found) == 1, "%s:per-query-closure" % fn, "expected one per-query closure, found %d" % len(found), root.where())
    rb = F.need(APP + "CompassApp::run")
    tm = Terms(rb)
    okw = False
    ok_blocks = [bb for bb, blk in enumerate(rb.blocks) if not blk["cleanup"] for st_ in blk["stmts"] if st_["k"] == "assign" and st_["place"]["l"] == 0 and not st_["place"]["p"] and st_["rv"]["k"] == "agg" and st_["rv"].get("variant") == "Ok"]
    TRUNC = r"Iterator>?::(take|skip|filter|step_by|take_while|skip_while|filter_map)$"
    done_bb = None    # the block reached when all error responses were written
    ws = rb.calls_to(SINK + "::write_response")
    if len(ws) == 1 and innermost_loop(rb, ws[0].bb) is not None:
        lp = innermost_loop(rb, ws[0].bb)
        nx = [c for c in rb.calls() if c.func.get("method") == "next" and c.bb in lp[1]]
        okw = len(nx) == 1 and not [x for x in calls_in(deep_strip(tm.operand(nx[0].args[0], nx[0].bb))) if re.search(TRUNC, x[1])]
        okw = okw and clean(tm.operand(ws[0].args[1], ws[0].bb)) == clean(tm.call_term(nx[0].term, nx[0].bb))
        # written before any return of these error responses
        okw = okw and error_flow(F, rb, ws[0], tm)["ok"]
        src = clean(tm.operand(nx[0].args[0], nx[0].bb)) if nx else None
        if okw:
            for (x, y) in loop_exit_edges(rb, lp[1]):
                t = rb.blocks[x]["term"]
                if t["k"] == "switch":
                    d, names = switch_discr_info(rb, x)
                    if names and switch_target(t, names, "None") == y and clean(tm.operand(d, x)) == ("discr", clean(tm.call_term(nx[0].term, nx[0].bb))):
                        done_bb = y
    elif not ws:
        # error_inputs.iter_mut().try_for_each(|e| writer.write_response(e))?
        for c in rb.calls():
            if not (c.callee and itm(c.callee, "try_for_each")):
                continue
            cl = tm.operand(c.args[1], c.bb)
            if cl[0] != "closure" or cl[1] not in F.bodies:
                continue
            cb = F.bodies[cl[1]]
            cws = cb.calls_to(SINK + "::write_response")
            if len(cws) != 1 or cb.natural_loops():
                continue
            ctm = Terms(cb)
            src = clean(tm.operand(c.args[0], c.bb))
            okw = clean(ctm.operand(cws[0].args[1], cws[0].bb)) == ("arg", 2) and not [x for x in calls_in(src) if re.search(TRUNC, x[1])]
            okw = okw and try_propagation(cb, cws[0], ctm)["kind"] in ("propagated", "returned") and try_propagation(rb, c, tm)["kind"] == "propagated"
            # the block that continues after `?`
            for sbb, dt, names, t in switches(rb, tm):
                d = clean(dt)
                if names and d[0] == "discr" and contains(d, lambda q: q == clean(tm.call_term(c.term, c.bb))) and "Continue" in names.values():
                    done_bb = switch_target(t, names, "Continue")
    # what is written is the error responses that run returns, all of them
    if okw:
        okw = src is not None and src[0] == "call" and re.search(r"::(iter_mut|iter)$|::into_iter$", src[1]) is not None
    # every successful return of run comes after all of them were written
    okw = okw and bool(ok_blocks) and done_bb is not None and all(rb.dominates(done_bb, bb) for bb in ok_blocks)
    ctx.check(okw, "run:input-errors-written", "the error responses of queries that failed input processing are not all written to the sink", rb.where(), detail="for e in error_inputs { write_response(e) }")


def chain_names(t):
    return [re.sub(r"<[^<>]*>", "", x[1]).split("::")[-1] for x in calls_in(t)]


def _under(body, truth, variant=None):
    """terms of `body` restricted to the paths on which the given bool terms have the given values (and, optionally, the
    receiver is the given enum variant)"""
    tm0 = Terms(body)
    removed = []
    for sbb, dt, names, t in switches(body, tm0):
        d = clean(dt)
        if names is None:
            neg = False
            while d[0] == "un" and d[1] == "Not":
                d, neg = d[2], not neg
            if d in truth:
                f_, tr_ = bool_targets(t)
                want = truth[d] != neg
                removed.append((sbb, f_ if want else tr_))
        elif variant is not None and d == ("discr", ("arg", 1)):
            keep = switch_target(t, names, variant)
            for tgt in set([x[1] for x in t["targets"]] + [t["otherwise"]]):
                if tgt != keep:
                    removed.append((sbb, tgt))
    return partitioned_terms(body, removed)


def _cells_source(F, fb, ftm, join):
    """the sequence the cells of a row are computed from, and whether there is exactly one cell per element of it:
    `src.map(cell).join(",")`, or a vector filled with one push per turn of a loop over src and joined afterwards"""
    recv = clean(ftm.operand(join.args[0], join.bb))
    bad = r"Iterator>?::(take|skip|filter|step_by|take_while|skip_while|filter_map|flat_map|chain)$|Itertools::(dedup|unique)"
    t = recv
    while t[0] == "call" and len(t[2]) == 1 and re.search(r"::(into_iter|iter)$", t[1]):
        t = t[2][0]
    if t[0] == "call" and itm(t[1], "map") and len(t[2]) == 2:
        return t[2][0], not [x for x in calls_in(recv) if re.search(bad, x[1])] and len([x for x in calls_in(recv) if itm(x[1], "map")]) == 1
    for e in elementwise_builds(fb):
        if e["form"] == "loop" and e["site"].bb in ftm.live:
            built = clean(ftm.operand(e["site"].args[0], e["site"].bb))
            if built == t or contains(t, lambda q: q == built):
                src = clean(e["src"])
                # read the loop's source under the same partition as everything else (a helper that chooses the order by
                # `sorted` may have been written out in place)
                tm_all = Terms(fb)
                for c in fb.calls():
                    if c.func.get("method") == "next" and c.bb in ftm.live and clean(tm_all.operand(c.args[0], c.bb)) == src:
                        src = clean(ftm.operand(c.args[0], c.bb))
                        break
                return src, not [x for x in calls_in(src) if re.search(bad, x[1])]
    return None, False


def _order_of(F, t, mp, truth, depth=0):
    """(ordering, what is enumerated) of a sequence over the CSV mapping: ordering in {'by-key', 'reversed', None (insertion order)},
    enumerated in {'keys', 'entries'}; None when the sequence is not recognised as an ordering of all entries of the mapping"""
    if depth > 6:
        return None
    while t[0] == "call" and len(t[2]) == 1 and re.search(r"::(into_iter|iter)$|Iterator>?::(collect|copied|cloned)(\{.*\})?$|Itertools::collect_vec$", t[1]) and t[2][0] != mp:
        t = t[2][0]
    if t[0] != "call":
        return None
    name = t[1].split("{")[0]
    a = t[2]
    if a and a[0] == mp and len(a) == 1:
        if name.endswith("::keys"):
            return (None, "keys")
        if name.endswith("::iter"):
            return (None, "entries")
        return None
    if len(a) == 1 and name.endswith("Itertools::sorted"):
        inner = _order_of(F, a[0], mp, truth, depth + 1)
        return ("by-key", "keys") if inner == (None, "keys") else None
    if len(a) == 2 and name.endswith("Itertools::sorted_by_key") and a[1][0] == "closure" and a[1][1] in F.bodies:
        inner = _order_of(F, a[0], mp, truth, depth + 1)
        k = clean(Terms(F.bodies[a[1][1]]).return_term())
        if inner == (None, "entries") and k == ("field", ("arg", 2), "0"):
            return ("by-key", "entries")
        if inner == (None, "keys") and k == ("arg", 2):
            return ("by-key", "keys")
        return None
    if len(a) == 1 and itm(name, "rev"):
        inner = _order_of(F, a[0], mp, truth, depth + 1)
        return ("reversed", inner[1]) if inner is not None and inner[0] is None else None
    if len(a) == 2 and itm(name, "map") and a[1][0] == "closure" and a[1][1] in F.bodies:
        inner = _order_of(F, a[0], mp, truth, depth + 1)
        k = clean(Terms(F.bodies[a[1][1]]).return_term())
        if inner is not None and inner[1] == "entries" and k == ("field", ("arg", 2), "0"):
            return (inner[0], "keys")
        return None
    # a new helper that takes (mapping, sorted): read its result under the same value of `sorted`
    known = known_functions()
    if name in F.bodies and known and name not in known and "{closure" not in name and mp in a:
        hb = F.bodies[name]
        if hb.natural_loops():
            return None
        htruth = {}
        for i_, x in enumerate(a):
            if x in truth:
                htruth[("arg", i_ + 1)] = truth[x]
            elif x != mp:
                return None
        htm = _under(hb, htruth)
        rt = substitute_args(clean(htm.return_term()), a)
        return _order_of(F, rt, mp, truth, depth + 1)
    return None


def R4_header(ctx):
    """C19.R4 header once; header and rows in the same column order"""
    F = ctx.F
    ctx.rule("C19.R4", "WriteMode::Append writes the header only when the file does not exist and then opens in append mode; CSV header and rows use matching ordering adaptors per `sorted` branch (sorted() <-> sorted_by_key(key), rev() <-> rev()), one cell per mapping entry; JSON rows are serde_json::to_string (one line), no header", floor=8)
    ob = F.need(R + "write_mode::WriteMode::open_file")
    tm = Terms(ob)
    hdr = ob.calls_to(R + "write_mode::write_header")
    opens = ob.calls_to(R + "write_mode::open_append")
    exists = [c for c in ob.calls() if c.callee and c.callee.endswith("Path::exists")]
    sel = None
    for sbb, dt, names, t in switches(ob, tm):
        if deep_strip(dt) == ("discr", ("arg", 1)) and names:
            sel = (sbb, switch_target(t, names, "Append"))
    oka = sel is not None
    if oka:
        arm = ob.reachable(start=sel[1])
        h = [c for c in hdr if c.bb in arm and not any(c.bb in ob.reachable(start=switch_target(ob.blocks[sel[0]]["term"], switch_discr_info(ob, sel[0])[1], v)) for v in ("Overwrite", "Error"))]
        ex = [c for c in exists if ob.dominates(sel[1], c.bb)]
        oka = len(h) == 1 and len(ex) == 1
        if oka:
            verdict = deep_strip(tm.call_term(ex[0].term, ex[0].bb))
            oka = False
            for sbb, dt, names, t in switches(ob, tm):
                d = deep_strip(dt)
                neg = d[0] == "un" and d[1] == "Not"
                if neg:
                    d = d[2]
                if d == verdict:
                    f_, tr_ = bool_targets(t)
                    if neg:
                        f_, tr_ = tr_, f_
                    # header only on the `does not exist` (false) edge
                    oka = ob.dominates(f_, h[0].bb) and h[0].bb not in ob.reachable(start=tr_, removed_blocks=[sbb])
    ctx.check(oka, "append:header-only-for-new-file", "in Append mode the header is not written exactly when the file does not exist yet (a second header would appear)", ob.where(), detail="!exists => write_header")
    ab = F.need(R + "write_mode::open_append")
    art = nosite(deep_strip(Terms(ab).return_term()))
    ap = [x for x in calls_in(art) if x[1].endswith("OpenOptions::append")]
    ctx.check(len(ap) == 1 and ap[0][2][1] == ("const", "bool", True), "append:open-append", "the file is not opened with append(true)", ab.where(), detail="OpenOptions::new().append(true)")
    # header vs rows: the sequence of columns behind the header and behind each row is the same ordering of the same mapping
    hb = F.need(FMT + "::initial_file_contents")
    fb = F.need(FMT + "::format_response")
    mp = ("field", ("variant", ("arg", 1), "Csv"), "mapping")
    srt_t = ("field", ("variant", ("arg", 1), "Csv"), "sorted")
    for srt in (True, False):
        inst = "csv:order:%s" % ("sorted" if srt else "unsorted")
        with no_inline():
            htm = _under(hb, {srt_t: srt}, "Csv")
            ftm = _under(fb, {srt_t: srt}, "Csv")
            hj = [c for c in hb.calls() if c.callee and re.search(r"Itertools::join$|::join$", c.callee) and c.bb in htm.live]
            fj = [c for c in fb.calls() if c.callee and re.search(r"Itertools::join$|::join$", c.callee) and c.bb in ftm.live]
            if len(hj) != 1 or len(fj) != 1:
                ctx.bad(inst, "header or row pipeline not found for sorted=%s (joins: %d/%d)" % (srt, len(hj), len(fj)), fb.where())
                continue
            hsrc = clean(htm.operand(hj[0].args[0], hj[0].bb))
            rsrc, one_cell = _cells_source(F, fb, ftm, fj[0])
            ho = _order_of(F, hsrc, mp, {srt_t: srt})
            ro = _order_of(F, rsrc, mp, {srt_t: srt}) if rsrc is not None else None
        ok = ho is not None and ro is not None and ho[0] == ro[0] and ho[0] is not None and ho[1] == "keys" and ro[1] == "entries"
        ctx.check(ok, inst, "CSV header order (%s) and row order (%s) do not use matching ordering over the same mapping" % (ho, ro), fb.where(), detail="header %s <-> rows %s" % (ho, ro))
        ctx.check(one_cell, "csv:one-cell-per-entry:%s" % srt, "rows are not one cell per mapping entry", fb.where())
    # a cell is the JSON text of the mapped value (strings quoted and escaped: a comma or line break inside a value cannot
    # split the row), an empty cell when the mapping fails
    cells = []
    for cb in tree_of(F, fb.path):
        if not [c for c in cb.calls() if (c.callee or "").endswith("CsvMapping::apply_mapping")]:
            continue
        if cb is fb:
            for e in elementwise_builds(fb):
                v0 = clean(e["values"][0]) if e["values"] else None
                if v0 is not None and contains(v0, lambda q: q[0] == "call" and q[1].endswith("CsvMapping::apply_mapping")):
                    cells += list(v0[1]) if v0[0] == "phi" else [v0]
        else:
            rt = clean(Terms(cb).return_term())
            cells += list(rt[1]) if rt[0] == "phi" else [rt]
    is_apply = lambda q: q[0] == "call" and q[1].endswith("CsvMapping::apply_mapping")
    is_empty = lambda q: (q[0] == "call" and re.search(r"String::new$", q[1].split("{")[0])) or (q[0] == "call" and re.search(r"From<&str>>::from$|::to_string$|::to_owned$|String::from$|::from$", q[1].split("{")[0]) and len(q[2]) == 1 and q[2][0][0] == "const" and q[2][0][2] == "")
    # `apply_mapping(..).map(|v| v.to_string()).unwrap_or_else(|e| { ..; String::new() })` is the same two cases
    cells2 = []
    for q in cells:
        if q[0] == "call" and re.search(r"Result::<T, E>::unwrap_or(_else|_default)?$", q[1].split("{")[0]) and q[2]:
            cells2.append(norm_adaptors(F, q[2][0]))
            if len(q[2]) == 2:
                d_ = q[2][1]
                if d_[0] == "closure" and d_[1] in F.bodies:
                    d_ = clean(Terms(F.bodies[d_[1]]).return_term())
                cells2.append(d_)
            else:
                cells2.append(("call", "String::new", ()))
        else:
            cells2.append(q)
    cells = cells2
    okcell = bool([q for q in cells if contains(q, is_apply)])
    for q in cells:
        if contains(q, is_apply):
            okcell = okcell and q[0] == "call" and re.search(r"ToString>?::to_string$", q[1]) is not None and len(q[2]) == 1 and is_apply(q[2][0])
        else:
            okcell = okcell and is_empty(q)
    ctx.check(okcell, "csv:cell=json-text", "a CSV cell is not the JSON text (`to_string()`) of the mapped value, or not empty when the mapping fails: %s" % [short(q)[:80] for q in cells][:3], fb.where(), detail="cell = apply_mapping(response).to_string() / \"\"")
    # JSON
    jb = F.need(R + "response_output_format_json::format_response")
    got = {}
    for r in table(jb):
        if r.end == "return":
            nl = [cond_truth(l) for t, l in r.bools if t == ("arg", 2)]
            if nl and (result_variant(r.ret) == "Ok" or r.ret[0] == "call"):
                got[nl[0]] = r.ret
    v = got.get(True)
    ctx.check(v is not None and bool(calls_in(v, "serde_json::ser::to_string") or [x for x in calls_in(v) if x[1].endswith("::to_string") and "serde_json" in x[1]]) and not calls_in(v, "to_string_pretty"), "json:ndjson-one-line", "newline-delimited JSON rows are not compact serde_json::to_string output", jb.where(), detail="serde_json::to_string(response)")
    ib = F.need(R + "response_output_format_json::initial_file_contents")
    ig = {cond_truth(l): r.ret for r in table(ib) if r.end == "return" for t, l in r.bools if t == ("arg", 1)}
    ctx.check(ig.get(True) == ("agg", "std::option::Option", "None", ()), "json:ndjson-no-header", "newline-delimited JSON has a header", ib.where())


def R5_no_response_edits(ctx):
    """C19.R5 writing does not edit the caller's response"""
    F = ctx.F
    ctx.rule("C19.R5", "on the path from write_response(&mut response) no existing key of the response is removed or replaced: every IndexMut/insert/remove on the response is dominated by a check that the key is absent in the response itself", floor=2)
    n = 0
    for p in (FMT + "::format_response", SINK + "::write_response", R + "response_output_format_json::format_response"):
        b = F.need(p)
        tm = Terms(b)
        for c in b.calls():
            m = c.func.get("method")
            if m in ("index_mut", "insert", "remove", "take", "clear", "retain", "swap_remove", "shift_remove") or (c.callee or "").endswith("mem::swap") or (c.callee or "").endswith("mem::take"):
                if not c.args:
                    continue
                recv = unmut(nosite(deep_strip(tm.operand(c.args[0], c.bb))))
                if not contains(recv, lambda s: s == ("arg", 2)):
                    continue
                n += 1
                key = nosite(deep_strip(tm.operand(c.args[1], c.bb))) if len(c.args) > 1 else None
                guards = []
                for sbb, t, truth in controlling(b, tm, c.bb):
                    # the key is known to be absent: get(key).is_none() holds, or get(key).is_some() does not
                    while t[0] == "un" and t[1] == "Not":
                        t, truth = t[2], not truth
                    if t[0] == "call" and re.search(r"Option::<T>::is_(none|some)$", t[1]) and t[2][0][0] == "call" and t[2][0][1].endswith("Value::get") and unmut(t[2][0][2][0]) == ("arg", 2) and t[2][0][2][1] == key:
                        if t[1].endswith("is_none") == truth:
                            guards.append(sbb)
                ctx.check(bool(guards) and m == "index_mut", "%s:%s[%s]" % (short_fn_name(p), m, short(key) if key else ""), "the response's key %s is written/removed without a dominating `response.get(key).is_none()` check: existing information (e.g. the search error) can be replaced" % (short(key) if key else "?"), c.where(), detail="guarded by response.get(%s).is_none()" % (short(key) if key else ""))
    ctx.check(n >= 1, "matcher-live", "no write to the response found at all (matcher would be vacuous)", None)


def controlling(b, tm, block):
    """the bool conditions whose outcome is known when `block` runs: (switch block, condition term, its value)"""
    out = []
    for sbb, dt, names, t in switches(b, tm):
        if names is not None:
            continue
        f, tr = bool_targets(t)
        if tr is None or f is None or tr == f or sbb not in b.dom.get(block, ()):
            continue
        if b.dominates(tr, block) and not b.dominates(f, block):
            out.append((sbb, nosite(deep_strip(dt)), True))
        elif b.dominates(f, block) and not b.dominates(tr, block):
            out.append((sbb, nosite(deep_strip(dt)), False))
    return out


def controlling_true(b, tm, block):
    out = []
    for sbb, dt, names, t in switches(b, tm):
        if names is not None:
            continue
        f, tr = bool_targets(t)
        if tr is not None and tr != f and sbb in b.dom.get(block, ()):
            # `a && b` lowers to nested switches whose true edges both dominate the block
            if b.dominates(tr, block):
                out.append((sbb, nosite(deep_strip(dt))))
    return out


def R6_lock_order(ctx):
    """C19.R6 lock order"""
    F = ctx.F
    ctx.rule("C19.R6", "lock-order graph over all Mutex::lock sites reachable from CompassApp::run is acyclic (a lock B taken while a guard of A may be live gives the edge A -> B)", floor=1)
    reach = F.reachable_from([APP + "CompassApp::run"])
    edges = set()
    sites = 0
    for p in sorted(reach):
        b = F.bodies[p]
        locks = [c for c in b.calls() if c.callee and re.search(r"std::sync::(Mutex|RwLock)::<T>::(lock|read|write)$", c.callee)]
        if not locks:
            continue
        tm = Terms(b)
        ids = {}
        for c in locks:
            t = unmut(nosite(deep_strip(tm.operand(c.args[0], c.bb))))
            ty = peel_ty(c.args[0].get("ty", ""))
            ids[c.bb] = "%s:%s" % (short_fn_name(p), short(t)[:50])
            sites += 1
        for a in locks:
            for c2 in locks:
                if a is not c2 and c2.bb in b.reachable(start=a.bb) and a.bb != c2.bb:
                    # guard of a may still be live at c2 (conservative: not dropped explicitly before)
                    edges.add((ids[a.bb], ids[c2.bb]))
    # cycle detection
    graph = {}
    for x, y in edges:
        graph.setdefault(x, set()).add(y)
    cyc = None
    def dfs(n, stack, seen):
        nonlocal cyc
        if n in stack:
            cyc = stack[stack.index(n):] + [n]
            return
        if n in seen:
            return
        seen.add(n)
        for m in graph.get(n, ()):
            dfs(m, stack + [n], seen)
    seen = set()
    for n in list(graph):
        dfs(n, [], seen)
    ctx.check(cyc is None, "acyclic", "lock-order cycle: %s" % cyc, None, detail="%d lock sites, edges %s" % (sites, sorted(edges)))


def peel_ty(t):
    return t.replace("&", "").strip()


def R7_sink_format(ctx):
    """C19.R7 the sink writes rows in the format the header was written in"""
    F = ctx.F
    ctx.rule("C19.R7", "ResponseOutputPolicy::build (File): the format stored in the sink — which renders every row and the delimiter — is the configured format itself, the same value that WriteMode::open_file writes the header from; a re-ordered or re-flagged copy makes rows and header disagree", floor=3)
    b = F.need("routee_compass::app::compass::response::response_output_policy::ResponseOutputPolicy::build")
    tm = Terms(b)
    FMT = ("field", ("variant", ("arg", 1), "File"), "format")
    ofs = [c for c in b.calls() if (c.callee or "").endswith("WriteMode::open_file")]
    sinks = [x for x in subterms(clean(tm.return_term())) if x[0] == "agg" and x[2] == "File" and "ResponseSink" in x[1]]
    if len(ofs) != 1 or len(sinks) != 1:
        raise AnchorMissing("open_file call / ResponseSink::File in ResponseOutputPolicy::build")
    hdr = clean(tm.operand(ofs[0].args[2], ofs[0].bb))
    f = dict(sinks[0][3])
    ctx.check(hdr == FMT, "header-format=configured", "the header is not written from the configured format: %s" % short(hdr)[:100], ofs[0].where(), detail="open_file(.., &format)")
    ctx.check(f.get("format") == FMT, "sink-format=configured", "the sink renders rows with %s, not with the configured format the header was written from" % short(f.get("format"))[:100], b.where(), detail="format: format.clone()")
    dl = f.get("delimiter")
    ctx.check(dl is not None and dl[0] == "call" and dl[1].endswith("ResponseOutputFormat::delimiter") and dl[2][0] == FMT, "delimiter-of-configured-format", "the row delimiter is not the configured format's own", b.where(), detail="format.delimiter()")


def R8_json_row_is_the_serialisation(ctx):
    """C19.R8 a JSON record parses back to the response that was produced: the row is serde_json's own text of the response, unedited"""
    F = ctx.F
    ctx.rule("C19.R8", "response_output_format_json::format_response returns serde_json::to_string(response) (newline-delimited) / to_string_pretty(response) as it is: no edit of the serialised text (a `replace`, `trim`, re-escaping) — the text is only guaranteed to parse back when it is exactly what the serialiser wrote", floor=2)
    b = F.need("routee_compass::app::compass::response::response_output_format_json::format_response")
    want = {"serde_json::to_string", "serde_json::to_string_pretty", "serde_json::ser::to_string", "serde_json::ser::to_string_pretty"}
    n = 0
    for r in table(b):
        if r.end != "return":
            continue
        v = ok_value(r)
        if v is None:
            continue
        n += 1
        v = nosite(deep_strip(v))
        ok = v[0] == "call" and v[1].split("{")[0] in want and len(v[2]) == 1 and clean(v[2][0]) == ("arg", 1)
        ctx.check(ok, "json:row=serialisation:%s" % ("ndjson" if any(l != 0 for d, l in r.bools) else "pretty"), "the JSON row is not the serialiser's text of the response as it is: %s" % short(v)[:140], b.where(), detail=short(v)[:80])
    ctx.check(n >= 2, "json:both-branches", "expected an Ok row for the newline-delimited and the pretty branch (found %d)" % n, b.where())


RULES = [R1_who_may_write, R2_locked_row, R3_every_response_once, R4_header, R5_no_response_edits, R6_lock_order, R7_sink_format, R8_json_row_is_the_serialisation]
