"""Rules shared by several properties."""
import re

from core import *

ORDERED_TYPES = [
    "routee_compass_core::model::unit::cost::Cost",
    "routee_compass_core::model::unit::cost::ReverseCost",
    "routee_compass_core::model::unit::internal_float::InternalFloat",
    "routee_compass_core::model::unit::distance::Distance",
    "routee_compass_core::model::unit::time::Time",
    "routee_compass_core::model::unit::speed::Speed",
    "routee_compass_core::model::unit::energy::Energy",
    "routee_compass_core::model::unit::energy_rate::EnergyRate",
    "routee_compass_core::model::unit::grade::Grade",
    "routee_compass_core::model::unit::weight::Weight",
    "routee_compass_core::model::traversal::state::state_variable::StateVar",
    "routee_compass_core::model::network::vertex_id::VertexId",
    "routee_compass_core::model::network::edge_id::EdgeId",
]


def S0_ops(ctx, rid):
    """arithmetic operator impls on numeric newtypes are order-preserving derive wrappers"""
    ctx.rule(rid, "S0: every std::ops impl on a numeric newtype applies the same operator to the wrapped value, operands in order", floor=40)
    for p, ok, detail in ops_impl_inventory(ctx.F):
        b = ctx.F.bodies[p]
        ctx.check(ok, p, "operator impl is not the transparent wrapper the arithmetic domain assumes: %s" % detail, b.where(), detail=detail)


def S0_order(ctx, rid, types=None):
    """comparison impls are order-preserving wrappers (so `a < b` on a newtype means `<` on the float)"""
    F = ctx.F
    types = types or ORDERED_TYPES
    ctx.rule(rid, "S0: PartialOrd/Ord/PartialEq impls on cost/quantity/id newtypes are derived or `self.0.cmp(&other.0)` in that order; ReverseCost wraps Reverse<Cost>", floor=len(types) * 2)
    seen = set()
    for i in F.impls:
        tr = i.get("trait")
        if tr not in ("std::cmp::PartialOrd", "std::cmp::Ord", "std::cmp::PartialEq"):
            continue
        ty = i.get("self_adt")
        if ty not in types:
            continue
        seen.add((ty, tr))
        inst = "%s as %s" % (ty.split("::")[-1], tr.split("::")[-1])
        if i.get("auto_derived"):
            a = F.adts.get(ty)
            nf = len(a["variants"][0]["fields"]) if a else -1
            ctx.check(nf == 1, inst, "derived comparison over %d fields (expected a single wrapped value)" % nf, "%s:%s" % (i.get("file"), i.get("line")), detail="derived over 1 field")
            continue
        for it in i["items"]:
            b = F.bodies.get(it["path"])
            if b is None:
                continue
            rt = nosite(deep_strip(Terms(b).return_term()))
            inner = rt
            if it["name"] == "partial_cmp":
                inner = agg_payload(rt) if result_variant(rt) == "Some" else None
            ok = False
            if inner is not None and inner[0] == "call" and re.search(r"(::cmp|::partial_cmp|::eq)$", inner[1]):
                ok = inner[2] == (("field", ("arg", 1), "0"), ("field", ("arg", 2), "0"))
            if it["name"] in ("lt", "le", "gt", "ge", "ne", "max", "min", "clamp"):
                ok = False  # overriding these is outside the accepted idioms
            ctx.check(ok, inst + "::" + it["name"], "hand-written comparison is not `self.0.cmp(&other.0)`: %s" % short(rt), b.where(), detail=short(rt))
    for ty in types:
        for tr in ("std::cmp::PartialOrd", "std::cmp::PartialEq"):
            if (ty, tr) not in seen:
                ctx.bad("%s as %s:missing" % (ty.split("::")[-1], tr.split("::")[-1]), "expected comparison impl not found", None)
    rc = F.adts.get("routee_compass_core::model::unit::cost::ReverseCost")
    ok = False
    if rc:
        fs = rc["variants"][0]["fields"]
        ok = len(fs) == 1 and fs[0]["tree"].get("path") == "std::cmp::Reverse" and fs[0]["tree"]["args"][0].get("path") == "routee_compass_core::model::unit::cost::Cost"
    ctx.check(ok, "ReverseCost:field", "ReverseCost is not a wrapper around std::cmp::Reverse<Cost>", None, detail="Reverse<Cost>")
    ctx.trust("ordered_float::OrderedFloat total order (NaN greatest) and std::cmp::Reverse")


_UNIT_CACHE = {}


def unit_obligations(F):
    """all unit obligations of the workspace (cached per fact base)"""
    import units

    key = id(F)
    if key not in _UNIT_CACHE:
        summ = {}
        rows = []
        for b in F.local_bodies():
            if "_serde" in b.path or "__Visitor" in b.path:
                continue
            ut = units.UnitTags(F, b, summ)
            for ob in ut.obligations():
                ob["status"] = units.status(ob)
                rows.append(ob)
        _UNIT_CACHE[key] = rows
    return _UNIT_CACHE[key]


def unit_rule(ctx, rid, text, fn_pred, floor):
    """unit typestate: wherever the selected functions pair a quantity with a unit (call argument
    pairs, (value, unit) tuples, the receiver of convert, state writes) the unit must be the one the
    value is expressed in"""
    ctx.rule(rid, text, floor=floor)
    n = 0
    for ob in unit_obligations(ctx.F):
        if not fn_pred(ob["fn"]):
            continue
        short_fn = short_fn_name(ob["fn"])
        inst = "%s:%s:%s" % (short_fn, ob["callee"], ob["kind"])
        if ob["status"] == "ok":
            n += 1
            ctx.ok(inst, "%s in %s" % (short(ob["value"])[:70], short(ob["unit"])[:60]))
        elif ob["status"] == "mismatch":
            ctx.bad(inst, "quantity %s is expressed in %s but is used as %s" % (short(ob["value"])[:120], short(ob["tag"])[:100], short(ob["unit"])[:100]), ob["where"])
    return n
