#!/usr/bin/env python3
"""mk_known_signatures.py : write known_signatures.json (path -> type signature) for the functions of known_functions.txt, from
the dev fact base of the *reference* tree.  Used by Facts to re-identify a known function that was merely renamed or moved
(same signature, unique candidate): see core.Facts._undo_renames.  Run on the unchanged reference tree only."""
import json, os, sys
sys.path.insert(0, os.path.dirname(os.path.abspath(__file__)))
import core, run
fdir, st = run.extract("dev")
os.environ["VERIF_NO_MIR_INLINE"] = "1"
F = core.Facts(fdir)
known = core.known_functions()
out = {}
for p, b in sorted(F.bodies.items()):
    if p in known and b.kind in ("fn", "assocfn") and "{closure" not in p and not p.startswith("<") and not p.startswith("const "):
        out[p] = core.type_signature(b)
json.dump(out, open(os.path.join(os.path.dirname(os.path.abspath(__file__)), "known_signatures.json"), "w"), indent=0, sort_keys=True)
print("signatures:", len(out))
adts = {}
for p, a in sorted(F.adts.items()):
    if a.get("local"):
        adts[p] = core.adt_signature(a)
json.dump(adts, open(os.path.join(os.path.dirname(os.path.abspath(__file__)), "known_adts.json"), "w"), indent=0, sort_keys=True)
print("adts:", len(adts))
