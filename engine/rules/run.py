#!/usr/bin/env python3
"""Entry point:  run.py <property-id> [quick|thorough]

1. (re)extract the fact base from /repo's *current working tree* with the
   compassfacts rustc driver unless the content hash of the sources is unchanged,
2. run the rules of the property (props/<id>.py),
3. match violations against /verif/known_findings.json (exact keys),
4. write /verif/evidence/<id>.json and <id>.report.txt, print VIOLATION /
   KNOWN-FINDING lines, exit 0/1.
"""
import fcntl
import hashlib
import importlib
import json
import os
import subprocess
import sys
import time
import traceback

HERE = os.path.dirname(os.path.abspath(__file__))
VERIF = os.path.abspath(os.path.join(HERE, "..", ".."))
REPO = os.environ.get("VERIF_REPO", "/repo")
RUST = os.path.join(REPO, "rust")
CACHE = os.environ.get("VERIF_CACHE", os.path.join(VERIF, ".cache"))
EVIDENCE = os.environ.get("VERIF_EVIDENCE", os.path.join(VERIF, "evidence"))  # developer self-tests redirect this
DRIVER_DIR = os.path.join(VERIF, "engine", "compassfacts")
DRIVER = os.path.join(DRIVER_DIR, "target", "debug", "compassfacts")

sys.path.insert(0, HERE)
import core  # noqa: E402


def sh(cmd, **kw):
    return subprocess.run(cmd, shell=True, stdout=subprocess.PIPE, stderr=subprocess.STDOUT, text=True, **kw)


def source_hash(rust_root=None):
    h = hashlib.sha256()
    files = []
    for root, dirs, fs in os.walk(rust_root or RUST):
        dirs[:] = sorted(d for d in dirs if d not in ("target", ".git"))
        for f in sorted(fs):
            if f.endswith((".rs", ".toml", ".lock")):
                files.append(os.path.join(root, f))
    for f in files:
        h.update(os.path.relpath(f, rust_root or RUST).encode())
        with open(f, "rb") as fh:
            h.update(fh.read())
    # the driver itself is part of the key
    for f in (os.path.join(DRIVER_DIR, "src", "main.rs"),):
        with open(f, "rb") as fh:
            h.update(fh.read())
    return h.hexdigest(), len(files)


def sysroot():
    r = sh("rustc +nightly --print sysroot")
    return r.stdout.strip()


def build_driver():
    if os.path.exists(DRIVER) and os.path.getmtime(DRIVER) >= os.path.getmtime(os.path.join(DRIVER_DIR, "src", "main.rs")):
        return
    r = sh("cd %s && CARGO_NET_OFFLINE=true cargo build --offline" % DRIVER_DIR)
    if r.returncode != 0:
        print(r.stdout)
        print("ERROR: cannot build the compassfacts driver")
        sys.exit(3)


def extract(profile="dev", rust_root=None, fdir=None):
    """returns (facts_dir, info). Re-extracts when the source hash changed.
    rust_root/fdir: analyse another copy of the workspace (thorough-tier self-test on a scratch copy)."""
    os.makedirs(CACHE, exist_ok=True)
    lock = open(os.path.join(CACHE, "extract.lock"), "w")
    fcntl.flock(lock, fcntl.LOCK_EX)
    try:
        build_driver()
        h, nfiles = source_hash(rust_root)
        fdir = fdir or os.path.join(CACHE, "facts-" + profile)
        stamp = os.path.join(fdir, "STAMP.json")
        if os.path.exists(stamp):
            try:
                st = json.load(open(stamp))
                if st.get("hash") == h and all(os.path.exists(os.path.join(fdir, "%s-%s.json" % c)) for c in core.Facts.EXPECTED):
                    st["reused"] = True
                    return fdir, st
            except Exception:
                pass
        t0 = time.time()
        if os.path.isdir(fdir):
            for f in os.listdir(fdir):
                os.unlink(os.path.join(fdir, f))
        os.makedirs(fdir, exist_ok=True)
        target = os.path.join(CACHE, "target")
        prof_dir = os.path.join(target, "release" if profile == "release" else "debug")
        fp = os.path.join(prof_dir, ".fingerprint")
        if os.path.isdir(fp):
            for d in os.listdir(fp):
                if d.startswith("routee-compass") or d.startswith("routee_compass"):
                    sh("rm -rf '%s'" % os.path.join(fp, d))
        nonce = "%s-%d" % (h[:12], int(t0))
        env = dict(os.environ)
        env.update(
            {
                "LD_LIBRARY_PATH": os.path.join(sysroot(), "lib"),
                "CARGO_NET_OFFLINE": "true",
                "CARGO_TARGET_DIR": target,
                "RUSTFLAGS": "-Zmir-opt-level=0 -Awarnings",
                "RUSTC_WORKSPACE_WRAPPER": DRIVER,
                "COMPASSFACTS_OUT": fdir,
                "COMPASSFACTS_NONCE": nonce,
            }
        )
        env.pop("RUSTC_WRAPPER", None)
        cmd = "cargo +nightly check --offline --workspace" + (" --release" if profile == "release" else "")
        r = subprocess.run(cmd, shell=True, cwd=rust_root or RUST, env=env, stdout=subprocess.PIPE, stderr=subprocess.STDOUT, text=True)
        if r.returncode != 0 and rust_root is not None:
            raise RuntimeError("scratch copy does not build: %s" % r.stdout[-400:])
        if r.returncode != 0:
            print(r.stdout[-6000:])
            print("ERROR: /repo/rust does not build under the fact extractor (exit %d); no verdict" % r.returncode)
            sys.exit(3)
        # fail closed: every expected crate must have produced a fresh fact file
        for c in core.Facts.EXPECTED:
            p = os.path.join(fdir, "%s-%s.json" % c)
            if not os.path.exists(p):
                print("ERROR: fact file missing for crate %s (%s)" % c)
                sys.exit(3)
            with open(p) as fh:
                head = fh.read(400)
            if nonce not in head:
                print("ERROR: stale fact file for crate %s (%s)" % c)
                sys.exit(3)
        st = {"hash": h, "files": nfiles, "nonce": nonce, "profile": profile, "extract_s": round(time.time() - t0, 2), "reused": False}
        json.dump(st, open(stamp, "w"))
        return fdir, st
    finally:
        fcntl.flock(lock, fcntl.LOCK_UN)
        lock.close()


# ---------------------------------------------------------------------------


class Ctx:
    def __init__(self, pid, tier, facts):
        self.pid = pid
        self.tier = tier
        self.F = facts
        self.rules = {}
        self.violations = []
        self.notes = []
        self.samples = []
        self.assumptions = []
        self.trusted = set()
        self.cur = None

    def rule(self, rid, text, floor=1):
        self.cur = rid
        self.rules[rid] = {"text": text, "floor": floor, "instances": [], "obligations": 0, "discharged": 0}
        return rid

    def ok(self, inst, detail=None, rule=None):
        r = self.rules[rule or self.cur]
        r["obligations"] += 1
        r["discharged"] += 1
        r["instances"].append({"instance": inst, "detail": detail})

    def bad(self, inst, msg, where=None, rule=None):
        rid = rule or self.cur
        r = self.rules[rid]
        r["obligations"] += 1
        key = "%s|%s|%s" % (self.pid, rid, inst)
        self.violations.append({"key": key, "rule": rid, "instance": inst, "message": msg, "where": where})

    def check(self, cond, inst, msg, where=None, detail=None, rule=None):
        if cond:
            self.ok(inst, detail, rule)
        else:
            self.bad(inst, msg, where, rule)
        return bool(cond)

    def note(self, text):
        self.notes.append(text)

    def assume(self, text):
        if text not in self.assumptions:
            self.assumptions.append(text)

    def trust(self, text):
        self.trusted.add(text)

    def sample(self, s):
        if len(self.samples) < 40:
            self.samples.append(s)


def run_rules(pid, tier, F):
    ctx = Ctx(pid, tier, F)
    mod = importlib.import_module("props." + pid)
    for fn in mod.RULES:
        before = set(ctx.rules)
        try:
            fn(ctx)
        except core.AnchorMissing as e:
            rid = ctx.cur if (set(ctx.rules) - before) else fn.__name__
            if rid not in ctx.rules:
                ctx.rule(rid, fn.__doc__ or fn.__name__)
            ctx.bad("anchor-missing", "anchor not found: %s" % e, rule=rid)
        except Exception as e:  # fail closed: an un-analysable shape at an anchored site
            rid = ctx.cur if (set(ctx.rules) - before) else fn.__name__
            if rid not in ctx.rules:
                ctx.rule(rid, fn.__doc__ or fn.__name__)
            tb = traceback.format_exc().strip().splitlines()
            ctx.bad("unrecognised-shape", "rule could not analyse the anchored code (%s: %s) %s" % (type(e).__name__, e, " | ".join(tb[-3:])), rule=rid)
    # vacuity: floors
    for rid, r in ctx.rules.items():
        n = r["obligations"]
        if n < r["floor"]:
            ctx.violations.append(
                {"key": "%s|%s|vacuous-rule" % (pid, rid), "rule": rid, "instance": "vacuous-rule", "message": "rule matched %d instances, floor is %d" % (n, r["floor"]), "where": None}
            )
    return ctx


WITNESS_DIR = os.path.join(VERIF, "engine", "witness")


def witnesses(pid, ctx):
    """E3: rustdoc compile_fail witnesses (with error codes) and their compiling twins for this property, built against
    /repo/rust's current sources.  A witness that no longer behaves as stated is a violation `Cxx|Cxx.E3|<doc test>`."""
    import re as _re

    src = open(os.path.join(WITNESS_DIR, "src", "lib.rs")).read()
    prefix = pid.lower() + "_"
    if ("pub mod " + prefix) not in src:
        return
    rid = pid + ".E3"
    ctx.rule(rid, "type-level witnesses: each `compile_fail,E…` doc test fails to compile with exactly that error code and its twin compiles (cargo +nightly test --doc, crate engine/witness, path-dependent on /repo/rust)", floor=2)
    lock = open(os.path.join(CACHE, "witness.lock"), "w")
    fcntl.flock(lock, fcntl.LOCK_EX)
    try:
        sh("cp %s %s" % (os.path.join(RUST, "Cargo.lock"), os.path.join(WITNESS_DIR, "Cargo.lock")))
        env = dict(os.environ, CARGO_NET_OFFLINE="true", CARGO_TARGET_DIR=os.path.join(CACHE, "target-witness"))
        env.pop("RUSTC_WORKSPACE_WRAPPER", None)
        r = subprocess.run("cargo +nightly test --doc --offline -- %s" % prefix, shell=True, cwd=WITNESS_DIR, env=env, stdout=subprocess.PIPE, stderr=subprocess.STDOUT, text=True)
    finally:
        fcntl.flock(lock, fcntl.LOCK_UN)
        lock.close()
    n = 0
    for line in r.stdout.splitlines():
        m = _re.match(r"^test src/lib.rs - (\S+) \(line (\d+)\)( - compile fail)? \.\.\. (\w+)", line)
        if not m:
            continue
        n += 1
        # instance key without the line number: module name + ordinal of kind
        inst = "%s:%s" % (m.group(1), "compile_fail" if m.group(3) else "twin")
        ctx.check(m.group(4) == "ok", inst + "@L" + m.group(2), "the type-level witness no longer behaves as stated (a compile_fail witness compiles or fails with another error, or its twin does not compile)", "engine/witness/src/lib.rs:%s" % m.group(2), detail="doc test at line %s: %s" % (m.group(2), m.group(4)), rule=rid)
    if n == 0:
        ctx.bad("witness-run", "no witness result could be read (build failed?): %s" % r.stdout[-400:], rule=rid)


def selftest(pid, base_keys):
    """Thorough tier, checker self-validation: every seeded change kept for this property under /verif/seeded is applied to a
    scratch copy of /repo/rust (outside /repo and /verif, removed afterwards), the scratch copy is re-analysed and the property's
    rules must report a violation that the unchanged tree does not have (breaking changes) or stay silent (behaviour-preserving
    refactorings, kind "neutral").  The verdict on the property still comes from /repo;
    a missed seeded change is recorded in the evidence (checker weakness), it is not a violation of the property."""
    import shutil
    import tempfile

    seeded = os.path.join(VERIF, "seeded")
    out = {"variants": [], "detected": 0, "missed": 0, "skipped": 0, "neutral_silent": 0, "neutral_false_alarm": 0}
    ids = []
    kinds = {}
    for d in sorted(os.listdir(seeded)) if os.path.isdir(seeded) else []:
        mp = os.path.join(seeded, d, "meta.json")
        if os.path.exists(mp):
            try:
                m = json.load(open(mp))
            except Exception:
                continue
            if m.get("property") == pid and m.get("kind", "breaking") in ("breaking", "neutral"):
                ids.append(d)
                kinds[d] = m.get("kind", "breaking")
    if not ids:
        return out
    # one private scratch directory per run: thorough commands of different properties may run side by side
    scratch_root = tempfile.mkdtemp(prefix="verif-selftest-%s-" % pid)
    scratch = os.path.join(scratch_root, "w")
    try:
        for sid in ids:
            shutil.rmtree(scratch, ignore_errors=True)
            os.makedirs(os.path.join(scratch, "repo"))
            r = sh("rsync -a --exclude target --exclude .git %s/ %s/repo/rust/" % (RUST, scratch))
            if r.returncode != 0:
                out["variants"].append({"id": sid, "result": "skipped", "why": "copy failed"})
                out["skipped"] += 1
                continue
            r = sh("cd %s/repo && git apply --unsafe-paths %s" % (scratch, os.path.join(seeded, sid, "patch.diff")))
            if r.returncode != 0:
                out["variants"].append({"id": sid, "result": "skipped", "why": "patch no longer applies to the current tree"})
                out["skipped"] += 1
                continue
            try:
                fdir, st = extract("dev", rust_root=os.path.join(scratch, "repo", "rust"), fdir=os.path.join(scratch, "facts"))
                F = core.Facts(fdir)
                ctx = run_rules(pid, "quick", F)
                new = sorted({v["key"] for v in ctx.violations} - base_keys)
            except Exception as e:
                out["variants"].append({"id": sid, "result": "skipped", "why": "scratch analysis failed: %s" % str(e)[:200]})
                out["skipped"] += 1
                continue
            if kinds.get(sid) == "neutral":
                # a behaviour-preserving refactoring: the rules must stay silent on it
                if new:
                    out["neutral_false_alarm"] += 1
                    out["variants"].append({"id": sid, "result": "FALSE-ALARM", "by": new[:4]})
                else:
                    out["neutral_silent"] += 1
                    out["variants"].append({"id": sid, "result": "silent"})
            elif new:
                out["detected"] += 1
                out["variants"].append({"id": sid, "result": "detected", "by": new[:4]})
            else:
                out["missed"] += 1
                out["variants"].append({"id": sid, "result": "MISSED"})
    finally:
        shutil.rmtree(scratch_root, ignore_errors=True)
    return out


def main():
    if len(sys.argv) < 2:
        print("usage: run.py <Cxx> [quick|thorough]")
        sys.exit(2)
    pid = sys.argv[1]
    tier = sys.argv[2] if len(sys.argv) > 2 else os.environ.get("VERIF_TIER", "quick")
    if tier not in ("quick", "thorough"):
        tier = "quick"
    seed = int(os.environ.get("VERIF_SEED", "0") or 0)
    t0 = time.time()
    fdir, st = extract("dev")
    F = core.Facts(fdir)
    ctx = run_rules(pid, tier, F)
    if getattr(F, "renamed", None):
        ctx.note("anchored functions re-identified after a rename/move (same type signature, unique candidate), analysed under their reference names: %s" % "; ".join("%s <- %s" % (core.short_fn_name(o), core.short_fn_name(n)) for o, n in sorted(F.renamed.items())))
    profiles = [dict(st, violations=len(ctx.violations))]
    all_viol = list(ctx.violations)
    if tier == "thorough":
        # P7: repeat under the release cfg (debug_assertions off) and require the same verdicts
        fdir2, st2 = extract("release")
        F2 = core.Facts(fdir2)
        ctx2 = run_rules(pid, tier, F2)
        keys = {v["key"] for v in all_viol}
        for v in ctx2.violations:
            if v["key"] not in keys:
                v = dict(v)
                v["message"] = "[release profile] " + v["message"]
                all_viol.append(v)
        profiles.append(dict(st2, violations=len(ctx2.violations)))
        # E3 witnesses
        try:
            nb = len(ctx.violations)
            witnesses(pid, ctx)
            keys = {v["key"] for v in all_viol}
            for v in ctx.violations[nb:]:
                if v["key"] not in keys:
                    all_viol.append(v)
        except Exception as e:
            ctx.note("witness step failed to run: %s" % e)
        # per-property thorough hooks
        mod = importlib.import_module("props." + pid)
        extra = getattr(mod, "THOROUGH", None)
        if extra:
            for fn in extra:
                try:
                    fn(ctx)
                except Exception as e:
                    ctx.rule(fn.__name__, fn.__doc__ or fn.__name__)
                    ctx.bad("thorough-step-failed", "%s: %s" % (type(e).__name__, e), rule=fn.__name__)
            keys = {v["key"] for v in all_viol}
            for v in ctx.violations:
                if v["key"] not in keys:
                    all_viol.append(v)

    st_result = None
    if tier == "thorough" and os.environ.get("VERIF_SELFTEST", "1") != "0":
        st_result = selftest(pid, {v["key"] for v in all_viol})
        ctx.note("self-test on a scratch copy: %d seeded variants of the current tree re-analysed; breaking: %d detected, %d missed; refactorings: %d silent, %d false alarms; %d skipped: %s" % (len(st_result["variants"]), st_result["detected"], st_result["missed"], st_result.get("neutral_silent", 0), st_result.get("neutral_false_alarm", 0), st_result["skipped"], "; ".join("%s=%s" % (v["id"], v["result"]) for v in st_result["variants"])))

    # known findings
    kf_path = os.path.join(VERIF, "known_findings.json")
    known = {}
    if os.path.exists(kf_path):
        for k in json.load(open(kf_path)).get("findings", []):
            if k.get("property") == pid:
                known[k["key"]] = k
    new = [v for v in all_viol if v["key"] not in known]
    old = [v for v in all_viol if v["key"] in known]

    os.makedirs(EVIDENCE, exist_ok=True)
    report = os.path.join(EVIDENCE, pid + ".report.txt")
    with open(report, "w") as fh:
        fh.write("property %s  tier %s  source-hash %s\n" % (pid, tier, st["hash"][:16]))
        for v in new:
            fh.write("\nVIOLATION %s\n  rule: %s — %s\n  instance: %s\n  at: %s\n  %s\n" % (v["key"], v["rule"], ctx.rules.get(v["rule"], {}).get("text", ""), v["instance"], v["where"], v["message"]))
        for v in old:
            fh.write("\nKNOWN-FINDING %s\n  at: %s\n  %s\n" % (v["key"], v["where"], v["message"]))
        if not new and not old:
            fh.write("\nno violations\n")

    for v in old:
        print("KNOWN-FINDING: property=%s %s — %s" % (pid, v["key"], known[v["key"]].get("what", v["message"])))
    for v in new[:30]:
        print("  [%s] %s @ %s: %s" % (v["rule"], v["instance"], v["where"], v["message"][:400]))
    if len(new) > 30:
        print("  ... %d more (see %s)" % (len(new) - 30, report))
    for v in new[:1]:
        print("VIOLATION property=%s replay=%s" % (pid, report))

    obligations = sum(r["obligations"] for r in ctx.rules.values())
    discharged = sum(r["discharged"] for r in ctx.rules.values())
    distinct = len({(rid, i["instance"]) for rid, r in ctx.rules.items() for i in r["instances"]})
    mod = importlib.import_module("props." + pid)
    explanation = getattr(mod, "EXPLANATION", "")
    rules_out = {}
    for rid, r in ctx.rules.items():
        rules_out[rid] = {
            "text": r["text"],
            "floor": r["floor"],
            "obligations": r["obligations"],
            "discharged": r["discharged"],
            "instances": r["instances"][:60],
        }
    samples = ctx.samples[:]
    if not samples:
        for rid, r in ctx.rules.items():
            for i in r["instances"][:3]:
                samples.append({"rule": rid, "instance": i["instance"], "detail": i["detail"]})
    if not samples:
        samples = [{"note": "no rule instance was discharged on this run"}]
    ev = {
        "property_id": pid,
        "tier": tier,
        "seed": seed,
        "level": "other",
        "coverage": {
            "explanation": explanation
            + " | Static analysis over rustc MIR facts of /repo's working tree: %d crates, %d bodies loaded; %d rules, %d obligations, %d discharged, %d unlisted violations, %d known findings."
            % (len(F.crates), len(F.bodies), len(ctx.rules), obligations, discharged, len(new), len(old)),
            "evaluations": obligations,
            "distinct_nontrivial": distinct,
            "rule": "one evaluation = one rule instance (obligation) located by role in the type-checked MIR; distinct = distinct (rule, instance) pairs that were discharged by a term/dominance/table argument rather than mere existence",
            "obligations": obligations,
            "discharged": discharged,
            "checker_cmd": "./check %s %s" % (pid, tier),
            "trusted_base": sorted(ctx.trusted | {"rustc nightly MIR construction and type checking", "engine/compassfacts fact extractor", "engine/rules/core.py value-flow/dominance library"}),
            "samples": samples[:40],
            "rules": rules_out,
            "crates": {"%s/%s" % k: v for k, v in F.crates.items()},
            "profiles": profiles,
            "notes": ctx.notes,
            "known_findings_reported": [v["key"] for v in old],
            "selftest": st_result,
            "exhaustive": False,
        },
        "assumptions": ctx.assumptions,
        "wall_s": round(time.time() - t0, 3),
        "violations": len(new),
    }
    with open(os.path.join(EVIDENCE, pid + ".json"), "w") as fh:
        json.dump(ev, fh, indent=1, default=str)
    print("%s %s: %d rules, %d obligations, %d discharged, %d violations (%d known) in %.1fs" % (pid, tier, len(ctx.rules), obligations, discharged, len(new), len(old), time.time() - t0))
    sys.exit(1 if new else 0)


if __name__ == "__main__":
    main()
