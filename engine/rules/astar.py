"""Anchors inside a_star_algorithm::run_a_star shared by C01, C02, C04, C05, C10.

All sites are located by role (resolved callee + types), never by position."""
from core import *

A = "routee_compass_core::algorithm::search::"
RUN = A + "a_star::a_star_algorithm::run_a_star"
ADV = A + "a_star::a_star_algorithm::advance_search"
DIR = A + "direction::Direction::"
BRANCH = A + "search_tree_branch::SearchTreeBranch"
COST = "routee_compass_core::model::unit::cost::Cost"


def only(xs, what):
    if len(xs) != 1:
        raise AnchorMissing("%s: expected exactly one, found %d" % (what, len(xs)))
    return xs[0]


class AStar:
    def __init__(self, F):
        self.F = F
        b = self.body = F.need(RUN)
        tm = self.tm = Terms(b)
        self.pop = only(b.calls_to(ADV), "call of advance_search in run_a_star")
        self._tests = [c for c in b.calls() if c.callee and c.callee.endswith("termination_model::TerminationModel::test")]
        self.vf = only([c for c in b.calls_deep() if c.func.get("trait", "").endswith("frontier_model::FrontierModel") and c.func.get("method") == "valid_frontier"], "call of FrontierModel::valid_frontier")
        self.outer = outermost_loop(b, self.pop.bb)
        if self.outer is None:
            raise AnchorMissing("search loop around advance_search")
        self.loop_blocks = self.outer[1]
        # inner for-loop over incident edges: the Iterator::next whose receiver derives from get_incident_edges
        nexts = []
        for c in b.calls():
            if c.func.get("method") == "next" and c.bb in self.loop_blocks:
                t = tm.call_term(c.term, c.bb)
                if calls_in(t, DIR + "get_incident_edges"):
                    nexts.append(c)
        self.next = only(nexts, "Iterator::next over Direction::get_incident_edges")
        self.inner = innermost_loop(b, self.next.bb)
        inserts = [c for c in b.calls() if c.callee and c.callee.startswith("std::collections::HashMap::<K, V, S, A>::insert") and c.bb in self.loop_blocks]
        self.ins_tree = only([c for c in inserts if BRANCH in " ".join(c.func.get("targs", []))], "tree insert in the search loop")
        self.ins_cost = only([c for c in inserts if BRANCH not in " ".join(c.func.get("targs", []))], "g-score insert in the search loop")
        self.requeue = only([c for c in b.calls() if c.callee and "PriorityQueue" in c.callee and c.bb in self.loop_blocks and re.search(r"::(push\w*|change_priority\w*)$", c.callee)], "re-queue call in the search loop")
        self.init_push = only([c for c in b.calls() if c.callee and "PriorityQueue" in c.callee and c.bb not in self.loop_blocks and re.search(r"::(push\w*)$", c.callee)], "initial push")
        self.pet = only(b.calls_to(DIR + "perform_edge_traversal"), "perform_edge_traversal call")
        self.result_new = only([c for c in b.calls() if c.callee and c.callee.endswith("search_result::SearchResult::new")], "SearchResult::new")
        # terms
        self.popped = strip_try(deep_strip(tm.call_term(self.pop.term, self.pop.bb)))  # Option<VertexId> payload of Ok
        self.edge_id = deep_strip(tm.call_term(self.next.term, self.next.bb))  # the &EdgeId yielded by the iterator
        self.e = deep_strip(tm.operand(self.vf.args[1], self.vf.bb))  # the &Edge handed to the gate

    @property
    def test(self):
        return only(self._tests, "call of TerminationModel::test in run_a_star")

    def arg(self, cs, i):
        return deep_strip(self.tm.operand(cs.args[i], cs.bb))

    def current(self):
        """term of the popped vertex (Some payload of advance_search's Ok value)"""
        return self.popped
