use routee_compass::plugin::input::default::grid_search::plugin::GridSearchPlugin;
use routee_compass::plugin::input::input_plugin::InputPlugin;

fn main() {
    // a 2-option grid whose scalar options merely contain the text "grid_search": C17 requires exactly 2 queries
    let mut q = serde_json::json!({"abc": 1, "grid_search": {"name": ["grid_search_run_a", "b"]}});
    match (GridSearchPlugin {}).process(&mut q) {
        Ok(()) => {
            let n = q.as_array().map(|a| a.len()).unwrap_or(0);
            println!("expanded into {} queries: {}", n, q);
            if n != 2 { std::process::exit(1); }
        }
        Err(e) => {
            println!("VIOLATION: refused instead of expanded: {}", e);
            std::process::exit(1);
        }
    }
    // a nested grid_search key is still refused
    let mut r = serde_json::json!({"grid_search": {"grid_search": {"foo": ["a", "b"]}}});
    assert!((GridSearchPlugin {}).process(&mut r).is_err());
    let mut r2 = serde_json::json!({"grid_search": {"x": [{"grid_search": {"foo": ["a"]}}, {"y": 1}]}});
    assert!((GridSearchPlugin {}).process(&mut r2).is_err());
    println!("OK");
}
