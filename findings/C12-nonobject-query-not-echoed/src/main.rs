use routee_compass::plugin::input::input_plugin_ops::json_array_flatten;
use serde_json::json;

/// what CompassApp::run does with one query of the batch when no input plugin touches it
/// (input_plugins = [] or only plugins that pass non-objects through, e.g. grid_search):
/// wrap it in an array, run the plugins, flatten. A query of the wrong JSON type must come
/// back as an error response that echoes the request (C12).
fn main() {
    let mut bad = 0;
    for q in [json!(5), json!("x"), json!(null), json!(true)] {
        let mut wrapped = json!([q.clone()]);
        match json_array_flatten(&mut wrapped) {
            Ok(v) => { println!("{} -> accepted as {:?}", q, v); bad += 1; }
            Err(resp) => {
                let echoed = resp.get("request") == Some(&q);
                println!("{} -> request field = {}  (echoes the request: {})", q, resp.get("request").unwrap_or(&json!(null)), echoed);
                if !echoed { bad += 1; }
            }
        }
    }
    if bad > 0 { println!("VIOLATION: {} error responses do not echo their request", bad); std::process::exit(1); }
    println!("OK");
}
