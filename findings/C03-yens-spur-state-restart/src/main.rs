//! C01 demo: every route returned by a successful k-shortest-paths search (Yen's
//! algorithm over Dijkstra) must be a contiguous walk from the origin vertex to the
//! destination vertex in which no edge occurs twice.
//!
//! exit code 0: every successful search returned only valid routes
//! exit code 1: some successful search returned a route that violates the property

use routee_compass_core::algorithm::search::direction::Direction;
use routee_compass_core::algorithm::search::edge_traversal::EdgeTraversal;
use routee_compass_core::algorithm::search::search_algorithm::SearchAlgorithm;
use routee_compass_core::algorithm::search::search_instance::SearchInstance;
use routee_compass_core::model::access::default::no_access_model::NoAccessModel;
use routee_compass_core::model::cost::cost_aggregation::CostAggregation;
use routee_compass_core::model::cost::cost_model::CostModel;
use routee_compass_core::model::cost::vehicle::vehicle_cost_rate::VehicleCostRate;
use routee_compass_core::model::frontier::default::no_restriction::NoRestriction;
use routee_compass_core::model::network::{Edge, EdgeId, Graph, Vertex, VertexId};
use routee_compass_core::model::state::state_feature::StateFeature;
use routee_compass_core::model::state::state_model::StateModel;
use routee_compass_core::model::unit::as_f64::AsF64;
use routee_compass_core::model::termination::termination_model::TerminationModel;
use routee_compass_core::model::traversal::default::distance_traversal_model::DistanceTraversalModel;
use routee_compass_core::model::unit::{Distance, DistanceUnit};
use routee_compass_core::util::compact_ordered_hash_map::CompactOrderedHashMap;
use std::collections::{HashMap, HashSet};
use std::sync::Arc;

/// two disconnected parts.
///
/// part A has a detour at the only spur vertex (1) of its shortest path 0 -> 3:
///
///   (0) -[0]-> (1) -[1]-> (2) -[2]-> (3)
///               \                    ^
///                -[3]-> (4) -[4]----/
///
/// part B is a plain one-way street, there is exactly one path 5 -> 8 and no detour
/// at the spur vertex (6):
///
///   (5) -[5]-> (6) -[6]-> (7) -[7]-> (8)
fn build_graph() -> Graph {
    let vertices: Vec<Vertex> = (0..9).map(|i| Vertex::new(i, 0.0, 0.0)).collect();
    let edges = vec![
        Edge::new(0, 0, 1, 1.0),
        Edge::new(1, 1, 2, 1.0),
        Edge::new(2, 2, 3, 1.0),
        Edge::new(3, 1, 4, 2.0),
        Edge::new(4, 4, 3, 2.0),
        Edge::new(5, 5, 6, 1.0),
        Edge::new(6, 6, 7, 1.0),
        Edge::new(7, 7, 8, 1.0),
    ];
    let mut adj = vec![CompactOrderedHashMap::empty(); vertices.len()];
    let mut rev = vec![CompactOrderedHashMap::empty(); vertices.len()];
    for edge in &edges {
        adj[edge.src_vertex_id.0].insert(edge.edge_id, edge.dst_vertex_id);
        rev[edge.dst_vertex_id.0].insert(edge.edge_id, edge.src_vertex_id);
    }
    Graph {
        adj: adj.into_boxed_slice(),
        rev: rev.into_boxed_slice(),
        edges: edges.into_boxed_slice(),
        vertices: vertices.into_boxed_slice(),
    }
}

fn build_search_instance() -> SearchInstance {
    let state_model = Arc::new(
        StateModel::empty()
            .extend(vec![(
                String::from("distance"),
                StateFeature::Distance {
                    distance_unit: DistanceUnit::Kilometers,
                    initial: Distance::new(0.0),
                },
            )])
            .unwrap(),
    );
    let cost_model = CostModel::new(
        Arc::new(HashMap::from([(String::from("distance"), 1.0)])),
        Arc::new(HashMap::from([(
            String::from("distance"),
            VehicleCostRate::Raw,
        )])),
        Arc::new(HashMap::new()),
        CostAggregation::Sum,
        state_model.clone(),
    )
    .unwrap();
    SearchInstance {
        directed_graph: Arc::new(build_graph()),
        state_model,
        traversal_model: Arc::new(DistanceTraversalModel::new(DistanceUnit::Meters)),
        access_model: Arc::new(NoAccessModel {}),
        cost_model: Arc::new(cost_model),
        frontier_model: Arc::new(NoRestriction {}),
        termination_model: Arc::new(TerminationModel::IterationsLimit { limit: 1000 }),
    }
}

/// the property under test for one route
fn check_route(
    graph: &Graph,
    origin: VertexId,
    destination: VertexId,
    route: &[EdgeTraversal],
) -> Result<(), String> {
    let first = route.first().ok_or("route is empty")?;
    let last = route.last().ok_or("route is empty")?;
    let first_src = graph.src_vertex_id(&first.edge_id).map_err(|e| e.to_string())?;
    if first_src != origin {
        return Err(format!(
            "first edge {} leaves vertex {}, not the origin {}",
            first.edge_id, first_src, origin
        ));
    }
    for pair in route.windows(2) {
        let prev_dst = graph.dst_vertex_id(&pair[0].edge_id).map_err(|e| e.to_string())?;
        let next_src = graph.src_vertex_id(&pair[1].edge_id).map_err(|e| e.to_string())?;
        if prev_dst != next_src {
            return Err(format!(
                "edge {} ends at vertex {} but next edge {} starts at vertex {}",
                pair[0].edge_id, prev_dst, pair[1].edge_id, next_src
            ));
        }
    }
    let last_dst = graph.dst_vertex_id(&last.edge_id).map_err(|e| e.to_string())?;
    if last_dst != destination {
        return Err(format!(
            "last edge {} arrives at vertex {}, not at the destination {}",
            last.edge_id, last_dst, destination
        ));
    }
    let mut seen: HashSet<EdgeId> = HashSet::new();
    for et in route {
        if !seen.insert(et.edge_id) {
            return Err(format!("edge {} occurs twice", et.edge_id));
        }
    }
    Ok(())
}

fn main() {
    let si = build_search_instance();
    let alg = SearchAlgorithm::Yens {
        k: 2,
        underlying: Box::new(SearchAlgorithm::Dijkstra),
        similarity: None,
        termination: None,
    };
    let query = serde_json::json!({});

    let mut violations = 0;
    let mut successes = 0;
    for (o, d) in [(0usize, 3usize), (5, 8)] {
        let (origin, destination) = (VertexId(o), VertexId(d));
        let result =
            alg.run_vertex_oriented(origin, Some(destination), &query, &Direction::Forward, &si);
        match result {
            Err(e) => println!("query {} -> {}: search failed ({}), nothing to check", o, d, e),
            Ok(res) => {
                successes += 1;
                println!("query {} -> {}: search succeeded with {} route(s)", o, d, res.routes.len());
                for (i, route) in res.routes.iter().enumerate() {
                    let ids: Vec<usize> = route.iter().map(|et| et.edge_id.0).collect();
                    // C03: the state after each edge is the accumulation over the route's own edges
                    let mut acc = 0.0_f64;
                    for et in route.iter() {
                        let e = si.directed_graph.get_edge(&et.edge_id).unwrap();
                        acc += e.distance.as_f64() / 1000.0; // meters -> the state's kilometers
                        let reported = et.result_state[0].0;
                        if (reported - acc).abs() > 1e-9 {
                            violations += 1;
                            println!("  route {} {:?}: C03 VIOLATION after edge {}: reported accumulated distance {}, sum over the route's edges {}", i, ids, et.edge_id.0, reported, acc);
                        }
                    }
                    match check_route(&si.directed_graph, origin, destination, route) {
                        Ok(()) => println!("  route {} {:?}: ok", i, ids),
                        Err(msg) => {
                            violations += 1;
                            println!("  route {} {:?}: VIOLATION: {}", i, ids, msg);
                        }
                    }
                }
            }
        }
    }

    if successes == 0 {
        println!("no search succeeded, the demo is vacuous");
        std::process::exit(2);
    }
    if violations > 0 {
        println!("FAIL: {} returned route(s) violate C01", violations);
        std::process::exit(1);
    }
    println!("PASS: every returned route is a contiguous origin-to-destination walk");
}
