use routee_compass_core::algorithm::search::direction::Direction;
use routee_compass_core::algorithm::search::search_algorithm::SearchAlgorithm;
use routee_compass_core::algorithm::search::search_instance::SearchInstance;
use routee_compass_core::model::access::default::no_access_model::NoAccessModel;
use routee_compass_core::model::cost::cost_aggregation::CostAggregation;
use routee_compass_core::model::cost::cost_model::CostModel;
use routee_compass_core::model::cost::vehicle::vehicle_cost_rate::VehicleCostRate;
use routee_compass_core::model::frontier::default::no_restriction::NoRestriction;
use routee_compass_core::model::network::edge_id::EdgeId;
use routee_compass_core::model::network::graph::Graph;
use routee_compass_core::model::network::{Edge, Vertex};
use routee_compass_core::model::state::state_feature::StateFeature;
use routee_compass_core::model::state::state_model::StateModel;
use routee_compass_core::model::termination::termination_model::TerminationModel;
use routee_compass_core::model::traversal::default::distance_traversal_model::DistanceTraversalModel;
use routee_compass_core::model::unit::{Distance, DistanceUnit};
use routee_compass_core::util::compact_ordered_hash_map::CompactOrderedHashMap;
use std::collections::{HashMap, HashSet};
use std::sync::Arc;

/// a trip that has to start with a u-turn:
///   (0) -[0]-> (1)    origin edge
///   (1) -[1]-> (0)    the only way on from vertex 1
///   (0) -[2]-> (2)    destination edge
/// plus an unrelated spur so the graph is not degenerate
///   (2) -[3]-> (3)
fn build_graph() -> Graph {
    let vertices = vec![
        Vertex::new(0, 0.0, 0.0),
        Vertex::new(1, 0.0, 0.0),
        Vertex::new(2, 0.0, 0.0),
        Vertex::new(3, 0.0, 0.0),
    ];
    let edges = vec![
        Edge::new(0, 0, 1, 5.0),
        Edge::new(1, 1, 0, 5.0),
        Edge::new(2, 0, 2, 3.0),
        Edge::new(3, 2, 3, 1.0),
    ];
    let mut adj = vec![CompactOrderedHashMap::empty(); vertices.len()];
    let mut rev = vec![CompactOrderedHashMap::empty(); vertices.len()];
    for edge in &edges {
        adj[edge.src_vertex_id.0].insert(edge.edge_id, edge.dst_vertex_id);
        rev[edge.dst_vertex_id.0].insert(edge.edge_id, edge.src_vertex_id);
    }
    Graph {
        adj: adj.into_boxed_slice(),
        rev: rev.into_boxed_slice(),
        edges: edges.into_boxed_slice(),
        vertices: vertices.into_boxed_slice(),
    }
}

fn main() {
    let state_model = Arc::new(
        StateModel::empty()
            .extend(vec![(
                String::from("distance"),
                StateFeature::Distance {
                    distance_unit: DistanceUnit::Kilometers,
                    initial: Distance::new(0.0),
                },
            )])
            .unwrap(),
    );
    let cost_model = CostModel::new(
        Arc::new(HashMap::from([(String::from("distance"), 1.0)])),
        Arc::new(HashMap::from([(
            String::from("distance"),
            VehicleCostRate::Raw,
        )])),
        Arc::new(HashMap::new()),
        CostAggregation::Sum,
        state_model.clone(),
    )
    .unwrap();
    let graph = Arc::new(build_graph());
    let si = SearchInstance {
        directed_graph: graph.clone(),
        state_model: state_model.clone(),
        traversal_model: Arc::new(DistanceTraversalModel::new(DistanceUnit::Meters)),
        access_model: Arc::new(NoAccessModel {}),
        cost_model: Arc::new(cost_model),
        frontier_model: Arc::new(NoRestriction {}),
        termination_model: Arc::new(TerminationModel::IterationsLimit { limit: 100 }),
    };

    let origin = EdgeId(0);
    let destination = EdgeId(std::env::var("DEST").ok().and_then(|s| s.parse().ok()).unwrap_or(2));
    let mut failures: Vec<String> = vec![];

    for (name, alg) in [
        ("dijkstra", SearchAlgorithm::Dijkstra),
        (
            "a*",
            SearchAlgorithm::AStarAlgorithm {
                weight_factor: None,
            },
        ),
    ] {
        let result = alg
            .run_edge_oriented(
                origin,
                Some(destination),
                &serde_json::json!({}),
                &Direction::Forward,
                &si,
            )
            .expect("search should succeed");
        // tree rootedness: following parents from any entry must reach the search origin (tail of the origin edge)
        // without revisiting a vertex
        for tree in result.trees.iter() {
            for (v, _) in tree.iter() {
                let mut seen: HashSet<usize> = HashSet::new();
                let mut cur = *v;
                let mut chain = vec![cur.0];
                loop {
                    if !seen.insert(cur.0) {
                        failures.push(format!("{}: following parents from tree entry {} revisits vertex {} (chain {:?})", name, v, cur, chain));
                        break;
                    }
                    match tree.get(&cur) {
                        None => break,
                        Some(b) => { cur = b.terminal_vertex; chain.push(cur.0); }
                    }
                }
            }
        }
        for route in result.routes.iter() {
            if route.is_empty() || route[0].edge_id != origin {
                failures.push(format!("{}: edge-oriented route does not start with the origin edge {}: {:?}", name, origin, route.iter().map(|e| e.edge_id.0).collect::<Vec<_>>()));
            }
            let ids: Vec<usize> = route.iter().map(|et| et.edge_id.0).collect();
            println!("{}: route = {:?}", name, ids);
            if route.is_empty() {
                failures.push(format!("{}: empty route", name));
                continue;
            }
            let o_edge = graph.get_edge(&origin).unwrap();
            let d_edge = graph.get_edge(&destination).unwrap();
            let first = graph.get_edge(&route[0].edge_id).unwrap();
            let last = graph.get_edge(&route[route.len() - 1].edge_id).unwrap();
            if !(first.edge_id == origin || first.src_vertex_id == o_edge.src_vertex_id) {
                failures.push(format!("{}: first edge does not leave the origin", name));
            }
            if !(last.edge_id == destination || last.dst_vertex_id == d_edge.dst_vertex_id) {
                failures.push(format!("{}: last edge does not reach the destination", name));
            }
            for pair in route.windows(2) {
                let a = graph.get_edge(&pair[0].edge_id).unwrap();
                let b = graph.get_edge(&pair[1].edge_id).unwrap();
                if a.dst_vertex_id != b.src_vertex_id {
                    failures.push(format!(
                        "{}: route {:?} is not contiguous: edge {} ends at vertex {} but edge {} starts at vertex {}",
                        name, ids, a.edge_id, a.dst_vertex_id, b.edge_id, b.src_vertex_id
                    ));
                }
            }
            let unique: HashSet<usize> = ids.iter().cloned().collect();
            if unique.len() != ids.len() {
                failures.push(format!("{}: route {:?} repeats an edge", name, ids));
            }
        }
    }

    if failures.is_empty() {
        println!("OK: all routes are contiguous origin-to-destination walks");
    } else {
        for f in &failures {
            eprintln!("VIOLATION: {}", f);
        }
        std::process::exit(1);
    }
}
