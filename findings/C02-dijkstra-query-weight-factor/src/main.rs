//! C02 demo: on a metrically consistent network (every edge at least as long as the
//! great-circle distance between its end points) A* with weight factor <= 1 must return a
//! route whose total cost equals the minimum over all origin-destination paths, and
//! therefore the same cost as Dijkstra - forward and reverse, for every unit combination
//! of the speed-table traversal model.
//!
//! The network below has a "motorway" 0 -> 1 -> 2 driven at 130 km/h, a direct road
//! 0 -> 2 driven at 127 km/h and a slow detour over vertex 3. The objective is pure time.
//! exit code 0 = property holds for all cases, 1 = at least one violation.

use routee_compass_core::algorithm::search::a_star::a_star_algorithm::run_a_star;
use routee_compass_core::algorithm::search::backtrack::vertex_oriented_route;
use routee_compass_core::algorithm::search::direction::Direction;
use routee_compass_core::algorithm::search::edge_traversal::EdgeTraversal;
use routee_compass_core::algorithm::search::search_instance::SearchInstance;
use routee_compass_core::model::access::default::no_access_model::NoAccessModel;
use routee_compass_core::model::cost::cost_aggregation::CostAggregation;
use routee_compass_core::model::cost::cost_model::CostModel;
use routee_compass_core::model::cost::vehicle::vehicle_cost_rate::VehicleCostRate;
use routee_compass_core::model::frontier::default::no_restriction::NoRestriction;
use routee_compass_core::model::network::graph::Graph;
use routee_compass_core::model::network::{Edge, EdgeId, Vertex, VertexId};
use routee_compass_core::model::state::state_model::StateModel;
use routee_compass_core::model::termination::termination_model::TerminationModel;
use routee_compass_core::model::traversal::default::speed_traversal_engine::SpeedTraversalEngine;
use routee_compass_core::model::traversal::default::speed_traversal_model::SpeedTraversalModel;
use routee_compass_core::model::traversal::traversal_model::TraversalModel;
use routee_compass_core::model::unit::as_f64::AsF64;
use routee_compass_core::model::unit::{Cost, DistanceUnit, SpeedUnit, TimeUnit};
use routee_compass_core::util::compact_ordered_hash_map::CompactOrderedHashMap;
use routee_compass_core::util::geo::haversine;
use std::collections::HashMap;
use std::io::Write;
use std::sync::Arc;

/// (lon, lat) of the four vertices
const VERTICES: [(f32, f32); 4] = [
    (-105.0, 39.0), // 0 origin
    (-104.5, 39.0), // 1 motorway midpoint
    (-104.0, 39.0), // 2 destination
    (-104.5, 39.2), // 3 detour
];

/// (src, dst, speed in km/h). every edge also exists in the opposite direction.
const ROADS: [(usize, usize, f64); 5] = [
    (0, 1, 130.0),
    (1, 2, 130.0),
    (0, 2, 127.0),
    (0, 3, 100.0),
    (3, 2, 100.0),
];

/// edges are 0.1% longer than the great-circle distance between their end points
const STRETCH: f64 = 1.001;

fn build_graph() -> (Graph, Vec<f64>) {
    let vertices: Vec<Vertex> = VERTICES
        .iter()
        .enumerate()
        .map(|(i, (x, y))| Vertex::new(i, *x, *y))
        .collect();
    let mut edges: Vec<Edge> = vec![];
    let mut speeds_kph: Vec<f64> = vec![];
    for (s, d, kph) in ROADS.iter() {
        for (a, b) in [(*s, *d), (*d, *s)] {
            let gc = haversine::coord_distance_meters(
                &vertices[a].coordinate,
                &vertices[b].coordinate,
            )
            .unwrap()
            .as_f64();
            edges.push(Edge::new(edges.len(), a, b, gc * STRETCH));
            speeds_kph.push(*kph);
        }
    }
    let mut adj = vec![CompactOrderedHashMap::empty(); vertices.len()];
    let mut rev = vec![CompactOrderedHashMap::empty(); vertices.len()];
    for e in &edges {
        adj[e.src_vertex_id.0].insert(e.edge_id, e.dst_vertex_id);
        rev[e.dst_vertex_id.0].insert(e.edge_id, e.src_vertex_id);
    }
    let graph = Graph {
        adj: adj.into_boxed_slice(),
        rev: rev.into_boxed_slice(),
        edges: edges.into_boxed_slice(),
        vertices: vertices.into_boxed_slice(),
    };
    (graph, speeds_kph)
}

fn build_instance(
    graph: Arc<Graph>,
    speeds_kph: &[f64],
    speed_unit: SpeedUnit,
    distance_unit: Option<DistanceUnit>,
    time_unit: Option<TimeUnit>,
    tag: &str,
) -> SearchInstance {
    // write the speed table in the requested speed unit
    let factor = match speed_unit {
        SpeedUnit::KilometersPerHour => 1.0,
        SpeedUnit::MilesPerHour => 1.0 / 1.60934,
        SpeedUnit::MetersPerSecond => 1.0 / 3.6,
    };
    let path = std::env::temp_dir().join(format!(
        "c02_a1_demo_speeds_{}_{}.txt",
        std::process::id(),
        tag
    ));
    {
        let mut f = std::fs::File::create(&path).unwrap();
        for s in speeds_kph {
            writeln!(f, "{}", s * factor).unwrap();
        }
    }
    let engine = SpeedTraversalEngine::new(&path, speed_unit, distance_unit, time_unit).unwrap();
    let _ = std::fs::remove_file(&path);
    let traversal_model: Arc<dyn TraversalModel> =
        Arc::new(SpeedTraversalModel::new(Arc::new(engine)));
    let state_model = Arc::new(
        StateModel::empty()
            .extend(traversal_model.state_features())
            .unwrap(),
    );
    // objective: pure travel time
    let cost_model = CostModel::new(
        Arc::new(HashMap::from([
            (String::from("time"), 1.0),
            (String::from("distance"), 0.0),
        ])),
        Arc::new(HashMap::from([
            (String::from("time"), VehicleCostRate::Raw),
            (String::from("distance"), VehicleCostRate::Raw),
        ])),
        Arc::new(HashMap::new()),
        CostAggregation::Sum,
        state_model.clone(),
    )
    .unwrap();
    SearchInstance {
        directed_graph: graph,
        state_model,
        traversal_model,
        access_model: Arc::new(NoAccessModel {}),
        cost_model: Arc::new(cost_model),
        frontier_model: Arc::new(NoRestriction {}),
        termination_model: Arc::new(TerminationModel::IterationsLimit { limit: 10_000 }),
    }
}

/// cost of one edge under the query's objective (does not depend on how the edge is reached)
fn edge_cost(edge_id: EdgeId, si: &SearchInstance) -> f64 {
    let s0 = si.state_model.initial_state().unwrap();
    EdgeTraversal::forward_traversal(edge_id, None, &s0, si)
        .unwrap()
        .total_cost()
        .as_f64()
}

/// minimum cost over all simple paths from `at` to `dst`
fn brute_force(
    at: VertexId,
    dst: VertexId,
    visited: &mut Vec<VertexId>,
    so_far: f64,
    best: &mut f64,
    si: &SearchInstance,
) {
    if at == dst {
        if so_far < *best {
            *best = so_far;
        }
        return;
    }
    visited.push(at);
    for edge_id in si.directed_graph.out_edges(&at) {
        let next = si.directed_graph.dst_vertex_id(&edge_id).unwrap();
        if !visited.contains(&next) {
            brute_force(next, dst, visited, so_far + edge_cost(edge_id, si), best, si);
        }
    }
    visited.pop();
}

/// total cost of the route the engine returns for origin -> destination
fn engine_route(
    o: VertexId,
    d: VertexId,
    direction: &Direction,
    weight_factor: Option<Cost>,
    si: &SearchInstance,
) -> (f64, Vec<usize>) {
    let (source, target) = match direction {
        Direction::Forward => (o, d),
        Direction::Reverse => (d, o),
    };
    let result = run_a_star(source, Some(target), direction, weight_factor, si).unwrap();
    let route = vertex_oriented_route(source, target, &result.tree).unwrap();
    let cost: f64 = route.iter().map(|et| et.total_cost().as_f64()).sum();
    let mut edges: Vec<usize> = route.iter().map(|et| et.edge_id.0).collect();
    if let Direction::Reverse = direction {
        edges.reverse();
    }
    (cost, edges)
}

fn main() {
    let (graph, speeds_kph) = build_graph();
    let graph = Arc::new(graph);

    // precondition of the A* half of the property: metric consistency
    for e in graph.edges.iter() {
        let (src, _, dst) = graph.edge_triplet(&e.edge_id).unwrap();
        let gc = haversine::coord_distance_meters(&src.coordinate, &dst.coordinate).unwrap();
        assert!(
            e.distance >= gc,
            "edge {} is shorter than the great-circle distance",
            e.edge_id
        );
    }

    let unit_combinations = [
        ("kph_default_units", SpeedUnit::KilometersPerHour, None, None),
        (
            "kph_km_hours",
            SpeedUnit::KilometersPerHour,
            Some(DistanceUnit::Kilometers),
            Some(TimeUnit::Hours),
        ),
        (
            "mph_miles_minutes",
            SpeedUnit::MilesPerHour,
            Some(DistanceUnit::Miles),
            Some(TimeUnit::Minutes),
        ),
        (
            "mps_meters_seconds",
            SpeedUnit::MetersPerSecond,
            Some(DistanceUnit::Meters),
            Some(TimeUnit::Seconds),
        ),
    ];
    let mut violations = 0;
    let mut checked = 0;
    let od_pairs = [(0usize, 2usize), (2, 0), (0, 1), (3, 1), (1, 3)];
    for (tag, speed_unit, distance_unit, time_unit) in unit_combinations.iter().take(1) {
        let si = build_instance(graph.clone(), &speeds_kph, *speed_unit, *distance_unit, *time_unit, tag);
        for (o, d) in od_pairs.iter() {
            let (o, d) = (VertexId(*o), VertexId(*d));
            let mut best = f64::INFINITY;
            brute_force(o, d, &mut vec![], 0.0, &mut best, &si);
            for q in [serde_json::json!({}), serde_json::json!({"weight_factor": 50.0})] {
                let res = routee_compass_core::algorithm::search::search_algorithm::SearchAlgorithm::Dijkstra
                    .run_vertex_oriented(o, Some(d), &q, &Direction::Forward, &si)
                    .unwrap();
                let cost: f64 = res.routes[0].iter().map(|et| et.total_cost().as_f64()).sum();
                checked += 1;
                if (cost - best).abs() > 1e-9 * best.max(1.0) {
                    violations += 1;
                    println!("VIOLATION configured Dijkstra, query {} : {} -> {} costs {:.6}, least cost {:.6} (+{:.2}%)", q, o, d, cost, best, 100.0 * (cost - best) / best);
                }
            }
        }
    }
    println!("{} searches checked, {} violations", checked, violations);
    if violations > 0 {
        std::process::exit(1);
    }
    println!("OK: every returned route has least total cost; Dijkstra and A* agree");
}
