use routee_compass_core::algorithm::search::direction::Direction;
use routee_compass_core::algorithm::search::search_algorithm::SearchAlgorithm;
use routee_compass_core::algorithm::search::search_instance::SearchInstance;
use routee_compass_core::model::access::default::no_access_model::NoAccessModel;
use routee_compass_core::model::cost::cost_aggregation::CostAggregation;
use routee_compass_core::model::cost::cost_model::CostModel;
use routee_compass_core::model::cost::vehicle::vehicle_cost_rate::VehicleCostRate;
use routee_compass_core::model::network::edge_id::EdgeId;
use routee_compass_core::model::network::graph::Graph;
use routee_compass_core::model::network::{Edge, Vertex};
use routee_compass_core::model::state::state_feature::StateFeature;
use routee_compass_core::model::state::state_model::StateModel;
use routee_compass_core::model::termination::termination_model::TerminationModel;
use routee_compass_core::model::traversal::default::distance_traversal_model::DistanceTraversalModel;
use routee_compass_core::model::unit::{Distance, DistanceUnit};
use routee_compass_core::util::compact_ordered_hash_map::CompactOrderedHashMap;
use std::collections::{HashMap, HashSet};
use routee_compass::app::compass::config::frontier_model::turn_restrictions::turn_restriction_model::TurnRestrictionFrontierModel;
use routee_compass::app::compass::config::frontier_model::turn_restrictions::turn_restriction_service::{RestrictedEdgePair, TurnRestrictionFrontierService};
use std::sync::Arc;

/// a trip that has to start with a u-turn:
///   (0) -[0]-> (1)    origin edge
///   (1) -[1]-> (0)    the only way on from vertex 1
///   (0) -[2]-> (2)    destination edge
/// plus an unrelated spur so the graph is not degenerate
///   (2) -[3]-> (3)
fn build_graph() -> Graph {
    // e0: 0->1 (origin edge), e1: 1->2 (direct), e2: 2->3 (destination edge), detour e3: 1->4, e4: 4->2
    let vertices = vec![
        Vertex::new(0, 0.0, 0.0),
        Vertex::new(1, 0.0, 0.0),
        Vertex::new(2, 0.0, 0.0),
        Vertex::new(3, 0.0, 0.0),
        Vertex::new(4, 0.0, 0.0),
    ];
    let edges = vec![
        Edge::new(0, 0, 1, 5.0),
        Edge::new(1, 1, 2, 5.0),
        Edge::new(2, 2, 3, 5.0),
        Edge::new(3, 1, 4, 50.0),
        Edge::new(4, 4, 2, 50.0),
    ];
    let mut adj = vec![CompactOrderedHashMap::empty(); vertices.len()];
    let mut rev = vec![CompactOrderedHashMap::empty(); vertices.len()];
    for edge in &edges {
        adj[edge.src_vertex_id.0].insert(edge.edge_id, edge.dst_vertex_id);
        rev[edge.dst_vertex_id.0].insert(edge.edge_id, edge.src_vertex_id);
    }
    Graph {
        adj: adj.into_boxed_slice(),
        rev: rev.into_boxed_slice(),
        edges: edges.into_boxed_slice(),
        vertices: vertices.into_boxed_slice(),
    }
}

fn main() {
    let mut total = 0;
    for scenario in [vec![(0usize, 1usize)], vec![(1, 2)]] {
        total += run_scenario(&scenario);
    }
    if total > 0 { std::process::exit(1); }
    println!("OK: no route uses a restricted turn");
}

fn run_scenario(restricted: &[(usize, usize)]) -> usize {
    println!("restricted turns: {:?}", restricted);
    let state_model = Arc::new(
        StateModel::empty()
            .extend(vec![(
                String::from("distance"),
                StateFeature::Distance {
                    distance_unit: DistanceUnit::Kilometers,
                    initial: Distance::new(0.0),
                },
            )])
            .unwrap(),
    );
    let cost_model = CostModel::new(
        Arc::new(HashMap::from([(String::from("distance"), 1.0)])),
        Arc::new(HashMap::from([(
            String::from("distance"),
            VehicleCostRate::Raw,
        )])),
        Arc::new(HashMap::new()),
        CostAggregation::Sum,
        state_model.clone(),
    )
    .unwrap();
    let graph = Arc::new(build_graph());
    let si = SearchInstance {
        directed_graph: graph.clone(),
        state_model: state_model.clone(),
        traversal_model: Arc::new(DistanceTraversalModel::new(DistanceUnit::Meters)),
        access_model: Arc::new(NoAccessModel {}),
        cost_model: Arc::new(cost_model),
        frontier_model: Arc::new(TurnRestrictionFrontierModel {
            service: Arc::new(TurnRestrictionFrontierService {
                restricted_edge_pairs: Arc::new(restricted.iter().map(|(p, n)| RestrictedEdgePair { prev_edge_id: EdgeId(*p), next_edge_id: EdgeId(*n) }).collect::<HashSet<_>>()),
            }),
        }),
        termination_model: Arc::new(TerminationModel::IterationsLimit { limit: 100 }),
    };

    let origin = EdgeId(0);
    let destination = EdgeId(2);
    let mut failures: Vec<String> = vec![];

    for (name, alg) in [
        ("dijkstra", SearchAlgorithm::Dijkstra),
        (
            "a*",
            SearchAlgorithm::AStarAlgorithm {
                weight_factor: None,
            },
        ),
        (
            "ksp-single-via(k=1)",
            SearchAlgorithm::KspSingleVia {
                k: 1,
                underlying: Box::new(SearchAlgorithm::Dijkstra),
                similarity: None,
                termination: None,
            },
        ),
    ] {
        let result = alg
            .run_edge_oriented(
                origin,
                Some(destination),
                &serde_json::json!({}),
                &Direction::Forward,
                &si,
            )
            .expect("search should succeed");
        for route in result.routes.iter() {
            let ids: Vec<usize> = route.iter().map(|et| et.edge_id.0).collect();
            println!("{}: route = {:?}", name, ids);
            for pair in ids.windows(2) {
                if restricted.contains(&(pair[0], pair[1])) {
                    failures.push(format!("{}: route {:?} contains the restricted turn ({}, {})", name, ids, pair[0], pair[1]));
                }
            }
        }
    }
    for f in &failures {
        eprintln!("VIOLATION: {}", f);
    }
    failures.len()
}
